(* C02 reuse: sample histories. Definitions only. *)
From Coq Require Import String Ascii.
From Coq Require Import List Arith Bool.
Require Import TT.Model.Str TT.Model.Pipeline TT.Model.C02Model TT.Model.C02Samples TT.Model.C02Reuse.
Import ListNotations.
Local Open Scope list_scope.
Local Open Scope string_scope.

(* the recorded witness of C02-9: Doc { id: Uuid } under the mapping Uuid -> string, then the edited
   Doc { id: i32 } without the mapping; the first definition of Doc is kept *)
Definition h_maps_dropped : list rinput :=
  [ {| ri_files := [(0, [sstruct "Doc" [T0 "Uuid"; T0 "String"]; scmd "get_doc" [] (Some (T0 "Doc")) []])];
       ri_maps := [(L "Uuid", L "string")] |};
    {| ri_files := [(0, [sstruct "Doc" [T0 "i32"; T0 "String"]; scmd "get_doc" [] (Some (T0 "Doc")) []])];
       ri_maps := [] |} ].

(* the same history with the mapping kept: stale, closed *)
Definition h_maps_kept : list rinput :=
  [ {| ri_files := [(0, [sstruct "Doc" [T0 "Uuid"; T0 "String"]; scmd "get_doc" [] (Some (T0 "Doc")) []])];
       ri_maps := [(L "Uuid", L "string")] |};
    {| ri_files := [(0, [sstruct "Doc" [T0 "i32"; T0 "String"]; scmd "get_doc" [] (Some (T0 "Doc")) []])];
       ri_maps := [(L "Uuid", L "string")] |} ].

(* three rounds: an event with a payload struct in a second file; the event's file removed from disk
   (its cache entry, its listener and Progress stay); a new command using a new type with a nested
   dependency added to the first file, the payload struct redefined under its old name *)
Definition h_three : list rinput :=
  [ {| ri_files := [(0, [s_user; scmd "get_user" [("id", T0 "i32")] (Some (T0 "User")) []]);
                    (1, [sstruct "Progress" [T0 "i32"; T0 "User"];
                         sfn "notify" [("app", app_ty); ("p", T0 "Progress")] [semit "progress" (PVar (L "p"))]])];
       ri_maps := [(L "Uuid", L "string")] |};
    {| ri_files := [(0, [s_user; scmd "get_user" [("id", T0 "i32")] (Some (T0 "User")) []])];
       ri_maps := [(L "Uuid", L "string")] |};
    {| ri_files := [(0, [s_user; s_status; sstruct "Team" [T0 "User"; T1 "Vec" (T0 "Status"); T0 "Uuid"];
                         sstruct "Progress" [T0 "String"];
                         scmd "get_user" [("id", T0 "i32")] (Some (T0 "User")) [];
                         scmd "get_team" [] (Some (T2 "Result" (T0 "Team") (T0 "String"))) []])];
       ri_maps := [(L "Uuid", L "string"); (L "Stamp", L "number")] |} ].
