(* C10 model, text level of the member lines of the two types.ts templates (the expression / type part of
   one line; key, colon and separators are placed by the templates and read at the item level).
   Definitions only. *)
From Coq Require Import String Ascii.
From Coq Require Import List Arith Bool.
Require Import TT.Model.Str TT.Model.TypeParse TT.Model.C10Zod.
Import ListNotations.
Local Open Scope list_scope.

(* zod/templates/partials/schema.ts.tera:   key: {{ field.typescriptType }},   *)
Definition zod_field_text (m : mapping) (f : member) : str := build_schema m (m_ty f).
(* zod/templates/partials/param_schemas.ts.tera:   key: {{ param.typescriptType }}{% if param.isOptional %}.optional(){% endif %},   *)
Definition zod_param_text (m : mapping) (f : member) : str :=
  build_param_schema m (m_ty f) ++ (if m_opt f then L ".optional()" else []).
(* ts/templates/partials/interface.tera, param_interface.ts.tera:   key[?]: {{ field.typescriptType }};   *)
Definition plain_member_text (m : mapping) (f : member) : str := plain m (m_ty f).
(* param_interface.ts.tera / type_aliases.ts.tera:   key: Channel<{{ channel.typescriptMessageType }}>;   *)
Definition chan_member_text (m : mapping) (render : mapping -> tstruct -> str) (c : str * tstruct) : str :=
  L "Channel<" ++ render m (snd c) ++ L ">".

(* ---- the initialiser of a schema constant:  z.object({ <lines> })  ----
   schema.ts.tera prints every field on its own line (newline, two spaces, key, colon, schema, comma);
   param_schemas.ts.tera prints newline and two spaces once and then the entries without any separator
   (its for tag trims the following white space); both end with newline and the closing brace and parenthesis. *)
Definition nl : str := [ascii_of_nat 10].
Definition zod_line (sep : str) (kv : str * str) : str := sep ++ fst kv ++ L ": " ++ snd kv ++ L ",".
Definition zod_object_text (lead sep : str) (lines : list (str * str)) : str :=
  L "z.object({" ++ lead ++ flat_map (zod_line sep) lines ++ nl ++ L "})".
(* base/templates.rs ts_key: an identifier name stays bare, anything else is a quoted escaped literal *)
Definition key_src (k : str) : str := if is_ident_name k then k else L """" ++ esc_js k ++ L """".
Definition struct_schema_text (m : mapping) (s : sdef) : str :=
  zod_object_text [] (nl ++ L "  ") (map (fun f => (key_src (m_key f), zod_field_text m f)) (s_fields s)).
Definition param_schema_text (m : mapping) (c : cdef) : str :=
  zod_object_text (nl ++ L "  ") [] (map (fun f => (key_src (m_key f), zod_param_text m f)) (c_params c)).
