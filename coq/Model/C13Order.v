(* C13: the order-relevant skeleton of the pipeline.

   Names (paths, commands, events, types) are natural numbers; the content of a
   type definition is an opaque body number (two definitions of one name in two
   files carry different bodies).  Every hash-based collection of the code is a
   list here, put into an order that is an explicit parameter (record omega):

     w_files  order of AstCache.cache (HashMap<PathBuf, ParsedFile>)            analysis/mod.rs:87
     w_used   order of used_structs (HashMap built by collect_used_types)      generators/mod.rs:91, create_struct_contexts :216
     w_req    order of type_names (HashSet built from used_structs.keys())     zod/generator.rs:113
     w_deps   order of each dependencies[t] (HashSet<String>)                  dependency_graph.rs:103
     w_res    order of resolved_types (HashMap)                                dependency_graph.rs:138, :209
     w_dmap   order of dependencies (HashMap)                                  dependency_graph.rs:232

   An order is given as a list of names; an element is ranked by its position
   in that list (names that do not occur come last, in the order they had), and
   collections are put in order by a stable insertion sort on ranks.  Any
   enumeration order L of a duplicate-free collection is realised by taking L
   itself as the order, so quantifying over omega covers every iteration order.

   State of the code modelled: with the repairs C13-sort-before-use (every collection is sorted by
   name before use: [repaired]), C12-fix-dedup (one listener per event name, first emit site wins),
   C07-4 (event payload types bring their field types), C10-5 (Zod enums get a type alias).
   [gen_raw] is the pipeline as a function of the orders it is handed; [gen] hands it the sorted ones.
   No proofs in this file. *)
From Coq Require Import List Arith Bool.
Require Import TT.Model.Base TT.Model.Topo.
Import ListNotations.

Definition name := nat.

(* ---------- stable insertion sort ---------- *)
Section Sort.
Context {A : Type}.
Variable leb : A -> A -> bool.
Fixpoint insert (x : A) (l : list A) : list A :=
  match l with [] => [x] | y :: r => if leb x y then x :: l else y :: insert x r end.
Fixpoint isort (l : list A) : list A :=
  match l with [] => [] | x :: r => insert x (isort r) end.
End Sort.

Fixpoint rank (w : list name) (k : name) : nat :=
  match w with [] => 0 | x :: r => if Nat.eqb x k then 0 else S (rank r k) end.
Definition order_by {A : Type} (key : A -> name) (w : list name) (l : list A) : list A :=
  isort (fun a b => Nat.leb (rank w (key a)) (rank w (key b))) l.
Definition ident (n : name) : name := n.

(* ---------- projects ---------- *)
(* e_pay: the payload type as written (opaque id; e_roots are the custom names it mentions) *)
Record ev := { e_name : name; e_roots : list name; e_pay : nat }.
(* c_roots: custom type names mentioned by parameters, return type and channel
   message types; c_params: at least one ordinary parameter; c_chans: at least
   one Channel parameter *)
(* c_pnames: the ordinary parameters (Tauri-injected ones removed), c_cnames: the Channel parameters, in
   signature order *)
Record cmd := { c_name : name; c_roots : list name; c_pnames : list name; c_cnames : list name }.
Definition nonempty {A} (l : list A) : bool := match l with [] => false | _ => true end.
Definition c_params (c : cmd) : bool := nonempty (c_pnames c).
Definition c_chans (c : cmd) : bool := nonempty (c_cnames c).
(* t_fields: field names of a struct / variant names of an enum in declaration order; t_body: the rest of
   the definition (field types, attributes) as an opaque id *)
Record tdef := { t_name : name; t_deps : list name; t_body : nat; t_enum : bool; t_fields : list name }.
Inductive item :=
| ICmd (c : cmd) (evs : list ev)     (* #[tauri::command] fn, with the emit calls of its body *)
| IFn (evs : list ev)                (* any other fn (emit calls are harvested from every fn) *)
| IType (d : tdef)                   (* struct / enum deriving Serialize or Deserialize *)
| INoise.                            (* anything else *)
Definition file := (name * list item)%type.
Definition project := list file.

Record omega := { w_files : list name; w_used : list name; w_req : list name;
                  w_deps : list (name * list name); w_res : list name; w_dmap : list name }.

Definition item_cmds (it : item) : list cmd := match it with ICmd c _ => [c] | _ => [] end.
Definition item_events (it : item) : list ev := match it with ICmd _ e => e | IFn e => e | _ => [] end.
Definition item_types (it : item) : list tdef := match it with IType d => [d] | _ => [] end.
Definition file_cmds (f : file) : list cmd := flat_map item_cmds (snd f).
Definition file_events (f : file) : list ev := flat_map item_events (snd f).
Definition file_types (f : file) : list tdef := flat_map item_types (snd f).

(* analyze_project_with_verbose: one loop over the cache in hash order; commands and
   events are appended file by file, type definitions are inserted into the index *)
Definition files_in_order (w : omega) (p : project) : list file := order_by fst (w_files w) p.
Definition commands (w : omega) (p : project) : list cmd := flat_map file_cmds (files_in_order w p).
Definition events (w : omega) (p : project) : list ev := flat_map file_events (files_in_order w p).
Definition index (w : omega) (p : project) : list tdef := flat_map file_types (files_in_order w p).
(* type_definitions.insert(name, path): the last file in analysis order wins *)
Definition lookup (idx : list tdef) (n : name) : option tdef :=
  find (fun d => Nat.eqb (t_name d) n) (rev idx).
Definition defined (idx : list tdef) (n : name) : bool :=
  match lookup idx n with Some _ => true | None => false end.
Definition succs (idx : list tdef) (n : name) : list name :=
  match lookup idx n with Some d => t_deps d | None => [] end.

(* the sets below do not depend on an order; they are computed from the files as listed *)
Definition all_items (p : project) : list item := flat_map snd p.
Definition all_cmds (p : project) : list cmd := flat_map file_cmds p.
Definition all_events (p : project) : list ev := flat_map file_events p.
Definition cmd_roots (p : project) : list name := flat_map c_roots (all_cmds p).
Definition ev_roots (p : project) : list name := flat_map e_roots (all_events p).

Definition dep_graph (idx : list tdef) : Topo.graph name :=
  map (fun d => (t_name d, succs idx (t_name d))) idx.
Definition reach_list (g : Topo.graph name) (roots : list name) : list name :=
  match topo_sort (S (length (universe g roots))) g roots with Some l => l | None => [] end.

(* resolve_types_lazily: everything defined that is reachable from the harvested names *)
Definition discovered (idx : list tdef) (p : project) : list name :=
  filter (defined idx) (reach_list (dep_graph idx) (cmd_roots p ++ ev_roots p)).
(* collect_used_types (closure from the commands) plus the closure from the event payload types
   (discover_nested_dependencies is applied to them as well since C07-4) *)
Definition used (idx : list tdef) (p : project) : list name :=
  filter (defined idx) (reach_list (dep_graph idx) (cmd_roots p ++ ev_roots p)).

(* dependencies[t] in its iteration order *)
Definition w_dep_list (w : omega) (n : name) : list name :=
  match find (fun e => Nat.eqb (fst e) n) (w_deps w) with Some e => snd e | None => [] end.
Definition dep_order (w : omega) (n : name) (ds : list name) : list name :=
  order_by ident (w_dep_list w n) (nodup Nat.eq_dec ds).
Definition zod_graph (w : omega) (idx : list tdef) (p : project) : Topo.graph name :=
  map (fun n => (n, dep_order w n (succs idx n))) (discovered idx p).
(* topological_sort_types over the keys of used_structs; names without a used struct are skipped *)
Definition zod_order (w : omega) (idx : list tdef) (p : project) : list name :=
  let u := used idx p in
  filter (fun n => memb n u) (reach_list (zod_graph w idx p) (order_by ident (w_req w) u)).

(* ---------- declarations ---------- *)
Inductive decl :=
| DType (n : name) (body : nat) (fields : list name)     (* plain: export interface / export type, members in order *)
| DSchema (n : name) (body : nat) (fields : list name)   (* zod: export const <n>Schema *)
| DInfer (n : name)                  (* zod: export type <n> = z.infer<..> *)
| DParams (c : name) (ps cs : list name)   (* <Cmd>Params interface or alias: parameters, then channels *)
| DPSchema (c : name) (ps : list name)     (* zod: <Cmd>ParamsSchema *)
| DHooks                             (* zod: CommandHooks *)
| DWrapper (c : name)
| DListener (e : name) (pay : nat)    (* listener for event e with payload type pay *)
| DReexport (k : nat).               (* index.ts: 0 types, 1 commands, 2 events *)

Definition type_decls_plain (idx : list tdef) (ns : list name) : list decl :=
  flat_map (fun n => match lookup idx n with Some d => [DType n (t_body d) (t_fields d)] | None => [] end) ns.
Definition type_decls_zod (idx : list tdef) (ns : list name) : list decl :=
  flat_map (fun n => match lookup idx n with
                     | Some d => [DSchema n (t_body d) (t_fields d); DInfer n]
                     | None => [] end) ns.
Definition param_decl (c : cmd) : list decl :=
  if c_params c || c_chans c then [DParams (c_name c) (c_pnames c) (c_cnames c)] else [].
Definition pschema_decl (c : cmd) : list decl := if c_params c then [DPSchema (c_name c) (c_pnames c)] else [].

Record output := { o_types : list decl; o_commands : list decl; o_events : option (list decl); o_index : list decl }.

Definition types_file (zod : bool) (w : omega) (p : project) : list decl :=
  let idx := index w p in let cs := commands w p in
  if zod then type_decls_zod idx (zod_order w idx p) ++ flat_map pschema_decl cs ++ flat_map param_decl cs
  else type_decls_plain idx (order_by ident (w_used w) (used idx p)) ++ flat_map param_decl cs.
Definition commands_file (zod : bool) (w : omega) (p : project) : list decl :=
  (if zod then [DHooks] else []) ++ map (fun c => DWrapper (c_name c)) (commands w p).
(* create_event_contexts: one listener per distinct event name, the first emit site wins *)
Fixpoint dedup_events (seen : list name) (es : list ev) : list ev :=
  match es with
  | [] => []
  | e :: r => if memb (e_name e) seen then dedup_events seen r else e :: dedup_events (e_name e :: seen) r
  end.
Definition listener_decl (e : ev) : decl := DListener (e_name e) (e_pay e).
Definition events_file (w : omega) (p : project) : option (list decl) :=
  match events w p with [] => None | es => Some (map listener_decl (dedup_events [] es)) end.
Definition index_file (w : omega) (p : project) : list decl :=
  [DReexport 0; DReexport 1] ++ match events w p with [] => [] | _ => [DReexport 2] end.

(* run_generate: nothing is written when no command was found *)
Definition gen_raw (zod : bool) (w : omega) (p : project) : option output :=
  match commands w p with
  | [] => None
  | _ => Some {| o_types := types_file zod w p; o_commands := commands_file zod w p;
                 o_events := events_file w p; o_index := index_file w p |}
  end.

Definition decls (o : output) : list decl :=
  o_types o ++ o_commands o ++ (match o_events o with Some l => l | None => [] end) ++ o_index o.

(* ---------- --visualize-deps: the order-relevant content of the two extra files ---------- *)
Record vizout := { v_cmds : list name;                       (* command entry points, both files *)
                   v_types : list (name * list name);        (* txt: discovered types with their depends-on lists *)
                   v_nodes : list name;                      (* dot: type nodes *)
                   v_edges : list (name * name);             (* dot: type -> dependency edges *)
                   v_chains : list (nat * name) }.           (* txt: dependency chains, (indentation, name) per line *)
(* show_dependency_chain: the node, then (only discovered types have an entry in dependencies) each
   dependency one level deeper while the indentation is below 3 *)
Fixpoint chain (fuel : nat) (w : omega) (idx : list tdef) (ds : list name) (n : name) (indent : nat) : list (nat * name) :=
  match fuel with
  | 0 => []
  | S f => (indent, n) ::
           (if memb n ds
            then flat_map (fun d => if Nat.ltb indent 3 then chain f w idx ds d (S indent) else [])
                          (dep_order w n (succs idx n))
            else [])
  end.
Definition viz_raw (w : omega) (p : project) : vizout :=
  let idx := index w p in let ds := discovered idx p in
  {| v_cmds := map c_name (commands w p);
     v_types := map (fun n => (n, dep_order w n (succs idx n))) (order_by ident (w_res w) ds);
     v_nodes := order_by ident (w_res w) ds;
     v_edges := flat_map (fun n => map (fun d => (n, d)) (dep_order w n (succs idx n))) (order_by ident (w_dmap w) ds);
     v_chains := flat_map (fun n => chain 5 w idx ds n 0) (order_by ident (w_res w) ds) |}.

(* ---------- the repair: sort what was discovered before generating ---------- *)
(* The repaired pipeline still receives every collection in its hash order, and sorts it by name
   before use.  Ranking by position in a sorted list of names is ordering by name. *)
Definition sort_names (l : list name) : list name := isort Nat.leb l.
Definition names_of (p : project) : list name :=
  flat_map (fun d => t_name d :: t_deps d) (flat_map file_types p).
Definition repaired (w : omega) (p : project) : omega :=
  let ns := fun o => sort_names (order_by ident o (names_of p)) in
  {| w_files := sort_names (map fst (files_in_order w p));
     w_used := ns (w_used w); w_req := ns (w_req w);
     w_deps := map (fun n => (n, ns (w_dep_list w n))) (ns (w_dmap w));
     w_res := ns (w_res w); w_dmap := ns (w_dmap w) |}.
(* the code as patched: hash orders w arrive, sorted orders are used *)
Definition gen (zod : bool) (w : omega) (p : project) : option output := gen_raw zod (repaired w p) p.
Definition viz (w : omega) (p : project) : vizout := viz_raw (repaired w p) p.

(* run_generate as a whole: --verbose only prints; with --visualize-deps the two graph files are written
   after the bindings (bin/cargo-tauri-typegen.rs:263); nothing at all is written without a command *)
Record flags := { f_verbose : bool; f_visualize : bool }.
Definition run_files (fl : flags) (zod : bool) (w : omega) (p : project) : option (output * option vizout) :=
  match gen zod w p with
  | None => None
  | Some o => Some (o, if f_visualize fl then Some (viz w p) else None)
  end.

(* ---------- the output directory ---------- *)
(* FileWriter::write_typescript_file is fs::write: the whole content of the named file is replaced, every
   other name of the directory is left alone.  A directory is an association list name -> content. *)
Definition dir (C : Type) := list (nat * C).
Definition out_files (o : output) : dir (list decl) :=
  [(0, o_types o); (1, o_commands o)] ++ (match o_events o with Some e => [(2, e)] | None => [] end) ++ [(3, o_index o)].
Definition write_all {C} (prior : dir C) (fs : dir C) : dir C :=
  fs ++ filter (fun kv => negb (memb (fst kv) (map fst fs))) prior.
Definition read {C} (d : dir C) (k : nat) : option C :=
  match find (fun kv => Nat.eqb (fst kv) k) d with Some kv => Some (snd kv) | None => None end.

(* ---------- known classes (boolean, shared by theorems and the run-time matcher) ---------- *)
Fixpoint has_dup (l : list name) : bool :=
  match l with [] => false | x :: r => memb x r || has_dup r end.

(* Two files define a type of the same name: the definition in the last file (in sorted path order)
   is emitted, so moving a definition to another file can change the content. *)
Definition all_types (p : project) : list tdef := flat_map file_types p.
Definition kf_dupdef (p : project) : bool := has_dup (map t_name (all_types p)).

(* One event name is emitted with two different payload types: the listener is typed after the first
   emit site in sorted file order / item order, so reordering or moving functions can change it. *)
Definition kf_dupevent (p : project) : bool :=
  let es := flat_map file_events p in
  existsb (fun a => existsb (fun b => Nat.eqb (e_name a) (e_name b) && negb (Nat.eqb (e_pay a) (e_pay b))) es) es.
