(* C17: histories of runs. A step is one run of the tool - forced or not, fault-free or with the k-th write failing
   (k >= length plan: the record write fails) - optionally preceded by an edit of sources / configuration.
   Two ghost components accompany the state: the inputs of the generation that wrote the record, and whether a
   failed run has written over the output since (dirty). Definitions only. *)
From Coq Require Import List Arith Bool.
Require Import TT.Model.Str TT.Model.C08Fingerprint TT.Model.C08Run.
Import ListNotations.

Section Hist.
  Variables proj cfg schedT fnameT content fpT : Type.
  Variable fn_eqb : fnameT -> fnameT -> bool.
  Variable fpt_eqb : fpT -> fpT -> bool.
  Variable gfiles : schedT -> proj -> cfg -> list (fnameT * content).
  Variable gfp : schedT -> proj -> cfg -> fpT.
  Variable ghas_commands : proj -> bool.
  Variable cfg_force : cfg -> bool.
  Variable check_presence : bool.

  Inductive hstep17 := H17 (edit : option (proj * cfg)) (w : schedT) (flag : bool) (fault : option nat).

  Definition hstate17 := (state proj cfg fnameT content fpT * option (gen proj cfg schedT) * bool)%type.

  Definition edited (e : option (proj * cfg)) (st : state proj cfg fnameT content fpT) : state proj cfg fnameT content fpT :=
    match e with
    | Some (p, c) => {| s_src := p; s_cfg := c; s_out := s_out st; s_cache := s_cache st |}
    | None => st
    end.

  Definition step17 (s : hstate17) (h : hstep17) : hstate17 :=
    let '(st, g, d) := s in
    let 'H17 e w flag fault := h in
    let st0 := edited e st in
    let r := run proj cfg schedT fnameT content fpT fn_eqb fpt_eqb gfiles gfp ghas_commands cfg_force check_presence
                 w flag fault st0 in
    (snd r,
     match fst r with
     | Success => match s_cache (snd r) with Some _ => Some (w, s_src st0, s_cfg st0) | None => None end
     | _ => g
     end,
     match fst r with Success => false | Failure => true | _ => d end).
End Hist.

(* the concrete instance (presence test in the callers) *)
Definition hstep17_c := hstep17 project config sched.
Definition hstate17_c := hstate17 project config sched fname tree tree.
Definition step17_c : hstate17_c -> hstep17_c -> hstate17_c :=
  step17 project config sched fname tree tree fname_eqb tree_eqb files fp has_commands g_force true.
Definition init17 (p : project) (c : config) : hstate17_c := (init_state p c, None, false).
