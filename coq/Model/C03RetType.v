(* C03 - the return type text of a wrapper, own copy (definitions only), faithful to the code
   after the repairs C05-2-3-top-level-commas and C05-4-prefix-composite and the name of a
   command after C01-raw-ident-strip:
   analysis/type_resolver.rs find_top_level_comma / split_top_level / parse_type_structure,
   generators/base/type_visitor.rs (default visit_* methods, no type mappings),
   generators/base/templates.rs add_types_prefix, command_parser.rs IdentExt::unraw.
   The syntax of Rust types (qty), the printer type_to_string (qtts, ret_string) and fn_def
   are those of Model/Pipeline.v; nothing else of the spike models is used, so that their
   maintenance by other properties does not reach C03. *)
From Coq Require Import String Ascii.
From Coq Require Import List Arith Bool ZArith.
Require Import TT.Model.Str TT.Model.Pipeline.
Import ListNotations.
Local Open Scope char_scope.
Local Open Scope list_scope.

(* ---- IdentExt::unraw: the raw-identifier prefix is not part of the name ---- *)
Definition unraw (ident : str) : str := if starts (L "r#") ident then skipn 2 ident else ident.

(* ---- TypeStructure (models.rs) ---- *)
Inductive rt_struct :=
| RtPrim (s : str) | RtArr (t : rt_struct) | RtMap (k v : rt_struct) | RtSet (t : rt_struct)
| RtTuple (l : list rt_struct) | RtOpt (t : rt_struct) | RtRes (t : rt_struct) | RtCustom (s : str).

(* ---- find_top_level_comma: first comma outside <>, () and []; the depth is a signed
   integer in the code and may go negative on unbalanced input (no split there) ---- *)
Definition opens (b : ascii) : bool := Ascii.eqb b "<" || Ascii.eqb b "(" || Ascii.eqb b "[".
Definition closes (b : ascii) : bool := Ascii.eqb b ">" || Ascii.eqb b ")" || Ascii.eqb b "]".
Fixpoint ftc_go (d : Z) (i : nat) (s : str) : option nat :=
  match s with
  | [] => None
  | b :: s' =>
      if opens b then ftc_go (d + 1) (S i) s'
      else if closes b then ftc_go (d - 1) (S i) s'
      else if Ascii.eqb b "," && (d =? 0)%Z then Some i
      else ftc_go d (S i) s'
  end.
Definition find_top_level_comma (s : str) : option nat := ftc_go 0 0 s.
(* split_top_level: find_top_level_comma on the rest, again and again; the rest starts at
   depth 0, which is what one pass with the depth reset at each split computes *)
Fixpoint stl_go (d : Z) (cur : str) (s : str) : list str :=
  match s with
  | [] => [rev cur]
  | b :: s' =>
      if opens b then stl_go (d + 1) (b :: cur) s'
      else if closes b then stl_go (d - 1) (b :: cur) s'
      else if Ascii.eqb b "," && (d =? 0)%Z then rev cur :: stl_go 0 [] s'
      else stl_go d (b :: cur) s'
  end.
Definition split_top_level (s : str) : list str := stl_go 0 [] s.
(* parse_two_type_params *)
Definition two_params (inner : str) : option (str * str) :=
  match find_top_level_comma inner with
  | Some i => Some (trim (firstn i inner), trim (skipn (S i) inner))
  | None => None
  end.

Definition rt_one_of (s : str) (l : list string) : bool := existsb (fun x => str_eqb s (L x)) l.
Local Open Scope string_scope.
Definition rt_prim_of (s : str) : option str :=
  if rt_one_of s ["String"; "str"; "&str"] then Some (L "string")
  else if rt_one_of s ["i8"; "i16"; "i32"; "i64"; "i128"; "isize"; "u8"; "u16"; "u32"; "u64"; "u128"; "usize"; "f32"; "f64"]
       then Some (L "number")
  else if rt_one_of s ["bool"] then Some (L "boolean")
  else if rt_one_of s ["()"] then Some (L "void")
  else None.
(* extract_* helpers: prefix test, closing angle bracket test, fixed-offset slice *)
Definition rt_wrapped (tag : string) (s : str) : option str :=
  if starts (L tag) s && ends_with ">"%char s then Some (mid (String.length tag) 1 s) else None.

(* parse_type_structure, in the order of its tests *)
Fixpoint rt_parse (fuel : nat) (s0 : str) : option rt_struct :=
  match fuel with
  | 0 => None
  | S f =>
    let s := trim s0 in
    if starts (L "&") s then rt_parse f (skipn 1 s) else
    match rt_wrapped "Option<" s with Some inner => option_map RtOpt (rt_parse f inner) | None =>
    match rt_wrapped "Result<" s with
    | Some inner =>                      (* extract_result_ok_type: first TOP-LEVEL comma *)
        let ok := match find_top_level_comma inner with Some i => trim (firstn i inner) | None => inner end in
        option_map RtRes (rt_parse f ok)
    | None =>
    match rt_wrapped "Vec<" s with Some inner => option_map RtArr (rt_parse f inner) | None =>
    match (match rt_wrapped "HashMap<" s with Some inner => two_params inner | None => None end),
          (match rt_wrapped "BTreeMap<" s with Some inner => two_params inner | None => None end) with
    | Some (k, v), _ | None, Some (k, v) =>
        match rt_parse f k, rt_parse f v with Some k', Some v' => Some (RtMap k' v') | _, _ => None end
    | None, None =>
    match (match rt_wrapped "HashSet<" s with Some i => Some i | None => rt_wrapped "BTreeSet<" s end) with
    | Some inner => option_map RtSet (rt_parse f inner)
    | None =>
    if starts (L "(") s && ends_with ")"%char s then
      let inner := mid 1 1 s in
      if all_blank inner then Some (RtPrim (L "void"))
      else option_map RtTuple (mapM (rt_parse f) (map trim (split_top_level inner)))
    else match rt_prim_of s with Some p => Some (RtPrim p) | None => Some (RtCustom s) end
    end end end end end
  end.
Definition rt_parse_type_structure (s : str) : option rt_struct := rt_parse (S (List.length s)) s.
Local Close Scope string_scope.

(* ---- default TypeVisitor ---- *)
Fixpoint rt_render (t : rt_struct) : str :=
  match t with
  | RtPrim p => p
  | RtArr u => rt_render u ++ L "[]"
  | RtMap k v => L "Record<" ++ rt_render k ++ L ", " ++ rt_render v ++ L ">"
  | RtSet u => rt_render u ++ L "[]"
  | RtTuple [] => L "void"
  | RtTuple l => L "[" ++ join (L ", ") (map rt_render l) ++ L "]"
  | RtOpt u => rt_render u ++ L " | null"
  | RtRes u => rt_render u
  | RtCustom n => n
  end.

(* ---- add_types_prefix; the array branch recurses into the element type ---- *)
Definition rt_strip_suffix (suf s : str) : option str :=
  if starts (rev suf) (rev s) then Some (firstn (List.length s - List.length suf) s) else None.
Local Open Scope string_scope.
Fixpoint rt_atp (fuel : nat) (s : str) : str :=
  match fuel with 0 => s | S f =>
  if rt_one_of s ["void"; "string"; "number"; "boolean"; "any"; "unknown"; "null"; "undefined"] then s else
  match rt_strip_suffix (L "[]") s with
  | Some base => (rt_atp f base ++ L "[]")%list
  | None =>
    if starts (L "Record<") s || starts (L "Map<") s then s else
    match rt_strip_suffix (L " | null") s with
    | Some base => (rt_atp f base ++ L " | null")%list
    | None =>
      match rt_strip_suffix (L " | undefined") s with
      | Some base => (rt_atp f base ++ L " | undefined")%list
      | None =>
        if starts (L "[") s && ends_with "]"%char s then s
        else if starts (L "types.") s then s else (L "types." ++ s)%list
      end end end end.
Definition rt_add_types_prefix (s : str) : str := rt_atp (S (List.length s)) s.
Local Close Scope string_scope.

(* returnTypeTs | add_types_prefix *)
Definition rt_ret_ts (f : fn_def) : str :=
  match rt_parse_type_structure (ret_string f) with Some ts => rt_add_types_prefix (rt_render ts) | None => [] end.
