(* DependencyResolver as a state machine (src/build/dependency_resolver.rs): the struct holds a
   node set and a dependency Vec; add_node / add_dependency mutate it, resolve_build_order reads it.
   Histories interleave the three operations on one resolver. No proofs in this file. *)
From Coq Require Import List Arith Bool.
Require Import TT.Model.Base TT.Model.Topo TT.Model.Kahn.
Import ListNotations.

Section Resolver.
Context {node : Type} {ED : EqDec node}.

Inductive rop := AddNode (n : node) | AddDep (a b : node) | Resolve.

Record rstate := { rnodes : list node; rdeps : list (Kahn.dep node) }.
Definition rinit : rstate := {| rnodes := []; rdeps := [] |}.

(* HashSet::insert: no effect when already present *)
Definition ins (n : node) (l : list node) : list node := if Kahn.memb n l then l else l ++ [n].

Definition rapply (s : rstate) (o : rop) : rstate :=
  match o with
  | AddNode n => {| rnodes := ins n (rnodes s); rdeps := rdeps s |}
  | AddDep a b => {| rnodes := ins b (ins a (rnodes s)); rdeps := rdeps s ++ [(a, b)] |}
  | Resolve => s
  end.

(* [ord] stands for the hash map's iteration order at a resolution: some enumeration of the
   node set (a Section variable; the theorems assume only that it is a permutation) *)
Variable ord : list node -> list node.

Fixpoint rrun (s : rstate) (ops : list rop) : list (Kahn.kres node) :=
  match ops with
  | [] => []
  | Resolve :: ops' => kahn (ord (rnodes s)) (rdeps s) :: rrun s ops'
  | o :: ops' => rrun (rapply s o) ops'
  end.
End Resolver.
Arguments rop : clear implicits.
Arguments rstate : clear implicits.

(* TypeDependencyGraph as a state machine (src/analysis/dependency_graph.rs): add_dependency
   inserts into the set stored under the dependent (creating it), add_dependencies replaces the
   set, topological_sort_types reads the map. *)
Section GraphHist.
Context {node : Type} {ED : EqDec node}.
Local Notation graph := (Topo.graph node).

(* GNote: add_type_definition / add_resolved_type - annotations kept in other maps of the struct
   (definition path; StructInfo with its is_enum flag and fields); the dependency map is untouched *)
Inductive gop := GDep (a b : node) | GDeps (a : node) (l : list node) | GSort (req : list node)
               | GNote (a : node) (is_enum : bool).

Fixpoint gset (a : node) (f : list node -> list node) (g : graph) : graph :=
  match g with
  | [] => [(a, f [])]
  | (k, ds) :: g' => if eq_dec a k then (k, f ds) :: g' else (k, ds) :: gset a f g'
  end.

Definition gapply (g : graph) (o : gop) : graph :=
  match o with
  | GDep a b => gset a (ins b) g
  | GDeps a l => gset a (fun _ => nodup eq_dec l) g
  | GSort _ => g
  | GNote _ _ => g
  end.

(* [ord]: the order in which a set is traversed (hash order, or sorted name order) *)
Variable ord : list node -> list node.
Definition gord (g : graph) : graph := map (fun kd => (fst kd, ord (snd kd))) g.

Fixpoint grun (g : graph) (ops : list gop) : list (option (list node)) :=
  match ops with
  | [] => []
  | GSort req :: ops' =>
      let g' := gord g in let r := ord req in
      Topo.topo_sort (S (length (Topo.universe g' r))) g' r :: grun g ops'
  | o :: ops' => grun (gapply g o) ops'
  end.
End GraphHist.
Arguments gop : clear implicits.
