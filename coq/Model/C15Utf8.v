(* C15 - byte-level string primitives. A Rust &str is a list of bytes (UTF-8).
   Every slicing operation returns Panic exactly when Rust panics: start after end,
   end beyond the length, or an offset that is not a char boundary.
   Definitions only; the facts are in Proofs/C15Utf8Facts.v. *)
From Coq Require Import String Ascii.
From Coq Require Import List Arith Bool NArith.
Import ListNotations.
Local Open Scope list_scope.

Definition str := list ascii.
Definition L (s : string) : str := list_ascii_of_string s.

Definition byte_n (b : ascii) : N := N_of_ascii b.
Definition is_cont (b : ascii) : bool := (128 <=? byte_n b)%N && (byte_n b <? 192)%N.
Definition is_ascii (b : ascii) : bool := (byte_n b <? 128)%N.

(* outcome of a Rust function: it panics, the model ran out of fuel (proved impossible
   with the stated fuel), or it returns *)
Inductive outcome (A : Type) := Panic | OutOfFuel | Ok (a : A).
Arguments Panic {A}. Arguments OutOfFuel {A}. Arguments Ok {A} _.

(* the property's predicate on an observed outcome (run-time oracle): the function returned *)
Definition returned {A} (o : outcome A) : bool := match o with Ok _ => true | _ => false end.

Definition bind {A B} (x : outcome A) (f : A -> outcome B) : outcome B :=
  match x with Panic => Panic | OutOfFuel => OutOfFuel | Ok a => f a end.
Notation "'do' x <- e ; k" := (bind e (fun x => k)) (at level 200, x name, e at level 100, k at level 200).

(* ---- UTF-8 well-formedness (lenient: lead byte classes and continuation counts only, so
        every Rust str satisfies it) ---- *)
Definition width (b : ascii) : nat :=
  let n := byte_n b in
  if (n <? 128)%N then 1 else if (n <? 192)%N then 0 else if (n <? 224)%N then 2
  else if (n <? 240)%N then 3 else if (n <? 248)%N then 4 else 0.

Fixpoint utf8 (s : str) : bool :=
  match s with
  | [] => true
  | b :: r =>
      match width b with
      | 1 => utf8 r
      | 2 => match r with c1 :: r1 => is_cont c1 && utf8 r1 | _ => false end
      | 3 => match r with c1 :: c2 :: r2 => is_cont c1 && is_cont c2 && utf8 r2 | _ => false end
      | 4 => match r with c1 :: c2 :: c3 :: r3 => is_cont c1 && is_cont c2 && is_cont c3 && utf8 r3 | _ => false end
      | _ => false
      end
  end.

(* the only consequence of well-formedness the boundary calculus needs: a continuation byte
   never follows an ASCII byte. Theorems are proved under wf (weaker, closed under taking
   contiguous pieces) and restated under utf8. *)
Fixpoint wf (s : str) : bool :=
  match s with
  | [] => true
  | b :: r => match r with c :: _ => negb (is_ascii b && is_cont c) | [] => true end && wf r
  end.

(* str::is_char_boundary *)
Definition boundary (s : str) (i : nat) : bool :=
  if i =? 0 then true
  else if List.length s <=? i then i =? List.length s
  else match nth_error s i with Some b => negb (is_cont b) | None => false end.

(* &s[a..], &s[..b], &s[a..b] *)
Definition slice_from (s : str) (a : nat) : outcome str :=
  if (a <=? List.length s) && boundary s a then Ok (skipn a s) else Panic.
Definition slice_to (s : str) (b : nat) : outcome str :=
  if (b <=? List.length s) && boundary s b then Ok (firstn b s) else Panic.
Definition slice (s : str) (a b : nat) : outcome str :=
  if (a <=? b) && (b <=? List.length s) && boundary s a && boundary s b
  then Ok (firstn (b - a) (skipn a s)) else Panic.

(* ---- searching: byte offsets, as str::find ---- *)
Fixpoint starts (p s : str) : bool :=
  match p, s with
  | [], _ => true
  | a :: p', b :: s' => Ascii.eqb a b && starts p' s'
  | _, _ => false
  end.
Fixpoint find (pat s : str) : option nat :=
  if starts pat s then Some 0
  else match s with [] => None | _ :: r => option_map S (find pat r) end.
Fixpoint find_char (c : ascii) (s : str) : option nat :=
  match s with [] => None | b :: r => if Ascii.eqb b c then Some 0 else option_map S (find_char c r) end.
Definition contains (pat s : str) : bool := match find pat s with Some _ => true | None => false end.
Definition contains_char (c : ascii) (s : str) : bool := match find_char c s with Some _ => true | None => false end.
Definition ends_with_char (c : ascii) (s : str) : bool :=
  match rev s with c' :: _ => Ascii.eqb c c' | [] => false end.
Definition ends_with (p s : str) : bool := starts (rev p) (rev s).
Definition strip_prefix (p s : str) : option str := if starts p s then Some (skipn (List.length p) s) else None.
Definition strip_suffix (p s : str) : option str :=
  if ends_with p s then Some (firstn (List.length s - List.length p) s) else None.
Definition str_eqb (a b : str) : bool := if list_eq_dec ascii_dec a b then true else false.

(* ---- char::is_whitespace on the UTF-8 encoding: U+0009..000D, 0020, 0085, 00A0, 1680,
        2000..200A, 2028, 2029, 202F, 205F, 3000 ---- *)
Definition ws1 (b : ascii) : bool := let n := byte_n b in (n =? 32)%N || ((9 <=? n)%N && (n <=? 13)%N).
Definition ws2 (b c : ascii) : bool := (byte_n b =? 194)%N && ((byte_n c =? 133)%N || (byte_n c =? 160)%N).
Definition ws3 (b c d : ascii) : bool :=
  let x := byte_n b in let y := byte_n c in let z := byte_n d in
  ((x =? 225)%N && (y =? 154)%N && (z =? 128)%N)
  || ((x =? 226)%N && (y =? 128)%N && (((128 <=? z)%N && (z <=? 138)%N) || (z =? 168)%N || (z =? 169)%N || (z =? 175)%N))
  || ((x =? 226)%N && (y =? 129)%N && (z =? 159)%N)
  || ((x =? 227)%N && (y =? 128)%N && (z =? 128)%N).
(* byte length of the white-space character at the head of s; 0 when there is none *)
Definition ws_len (s : str) : nat :=
  match s with
  | [] => 0
  | b :: r =>
      if ws1 b then 1
      else match r with
           | [] => 0
           | c :: r' => if ws2 b c then 2
                        else match r' with d :: _ => if ws3 b c d then 3 else 0 | [] => 0 end
           end
  end.
(* the same, reading the reversed string (white-space character at the END of the original) *)
Definition ws_len_rev (s : str) : nat :=
  match s with
  | [] => 0
  | d :: r =>
      if ws1 d then 1
      else match r with
           | [] => 0
           | c :: r' => if ws2 c d then 2
                        else match r' with b :: _ => if ws3 b c d then 3 else 0 | [] => 0 end
           end
  end.
Fixpoint trim_go (len : str -> nat) (fuel : nat) (s : str) : str :=
  match fuel with 0 => s | S f => match len s with 0 => s | k => trim_go len f (skipn k s) end end.
Definition trim_start (s : str) : str := trim_go ws_len (List.length s) s.
Definition trim_end (s : str) : str := rev (trim_go ws_len_rev (List.length s) (rev s)).
Definition trim (s : str) : str := trim_end (trim_start s).

(* str::split(c) for an ASCII c: always at least one piece *)
Fixpoint split (c : ascii) (s : str) : list str :=
  match s with
  | [] => [[]]
  | b :: r => if Ascii.eqb b c then [] :: split c r
              else match split c r with h :: t => (b :: h) :: t | [] => [[b]] end
  end.

(* str::replace(pat, rep), pat non-empty *)
Fixpoint replace_go (fuel : nat) (pat rep s : str) : str :=
  match fuel with 0 => s | S f =>
    if starts pat s then rep ++ replace_go f pat rep (skipn (List.length pat) s)
    else match s with c :: r => c :: replace_go f pat rep r | [] => [] end
  end.
Definition replace (pat rep s : str) : str := replace_go (S (List.length s)) pat rep s.

Fixpoint mapM_b {A B} (f : A -> outcome B) (l : list A) : outcome (list B) :=
  match l with
  | [] => Ok []
  | x :: r => do y <- f x; do ys <- mapM_b f r; Ok (y :: ys)
  end.
