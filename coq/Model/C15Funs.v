(* C15 - byte-faithful models (f_b : str -> outcome R) of every function of /repo that
   slices a str by computed offsets, unwraps or recurses on substrings. Each slice of the
   Rust code is a slice/slice_from/slice_to here, in the same order, with the same offsets.
   Anchors: src/analysis/validator_parser.rs, serde_parser.rs, type_resolver.rs, mod.rs,
   src/generators/base/templates.rs, template_context.rs + crate serde-rename-rule 0.2.3. *)
From Coq Require Import String Ascii.
From Coq Require Import List Arith Bool NArith ZArith.
Require Import TT.Model.C15Utf8.
Import ListNotations.
Local Open Scope char_scope.
Local Open Scope list_scope.

(* ================= validator_parser.rs ================= *)

(* parse_message_from_content, the closing-quote scan (repaired: char_indices): the BYTE offset of
   the closing quote; continuation bytes advance the offset but are not looked at *)
Fixpoint scan (q : ascii) (s : str) (i : nat) (escaped : bool) : option nat :=
  match s with
  | [] => None
  | b :: s' =>
      if is_cont b then scan q s' (S i) escaped
      else if escaped then scan q s' (S i) false
      else if Ascii.eqb b "\" then scan q s' (S i) true
      else if Ascii.eqb b q then Some i
      else scan q s' (S i) false
  end.

Definition unescape (m : str) : str :=
  replace (L "\\") (L "\")
    (replace (L "\t") [ascii_of_nat 9]
      (replace (L "\n") [ascii_of_nat 10]
        (replace (L "\'") (L "'")
          (replace (L "\""") (L """") m)))).

(* (rest, i) of the slice `&rest[..i]`, i = byte offset of the closing quote *)
Definition msg_site (content : str) : outcome (option (str * nat)) :=
  match find (L "message") content with
  | None => Ok None
  | Some msg_pos =>
      do c1 <- slice_from content msg_pos;
      match find_char "=" c1 with
      | None => Ok None
      | Some eq_pos =>
          do a <- slice_from content (msg_pos + eq_pos + 1);
          let after_eq := trim_start a in
          match after_eq with
          | [] => Ok None
          | q :: _ =>
              if Ascii.eqb q """" || Ascii.eqb q "'" then
                do rest <- slice_from after_eq 1;
                match scan q rest 0 false with
                | None => Ok None
                | Some i => Ok (Some (rest, i))
                end
              else Ok None
          end
      end
  end.
Definition msg_b (content : str) : outcome (option str) :=
  do st <- msg_site content;
  match st with
  | None => Ok None
  | Some (rest, i) => do m <- slice_to rest i; Ok (Some (unescape m))
  end.

(* min = / max = : the text handed to str::parse *)
Definition bound_b (kw : str) (content : str) : outcome (option str) :=
  match find kw content with
  | None => Ok None
  | Some p =>
      do c1 <- slice_from content p;
      match find_char "=" c1 with
      | None => Ok None
      | Some e =>
          do after_eq <- slice_from content (p + e + 1);
          match find_char "," after_eq with
          | Some c => do v <- slice_to after_eq c; Ok (Some (trim v))
          | None => Ok (Some (trim after_eq))
          end
      end
  end.

Record vcon := { v_min : option str; v_max : option str; v_msg : option str }.
Definition vcon_empty := {| v_min := None; v_max := None; v_msg := None |}.

(* the text between the parentheses of length(..) / range(..) *)
Definition content_b (kw : str) (tokens : str) : outcome (option str) :=
  match find kw tokens with
  | None => Ok None
  | Some st =>
      do t1 <- slice_from tokens st;
      match find_char "(" t1 with
      | None => Ok None
      | Some ps =>
          do t2 <- slice_from tokens (st + ps);
          match find_char ")" t2 with
          | None => Ok None
          | Some pe => do c <- slice tokens (st + ps + 1) (st + ps + pe); Ok (Some c)
          end
      end
  end.
(* parse_length_from_tokens / parse_range_from_tokens (they differ only in the number parser) *)
Definition con_b (kw : str) (tokens : str) : outcome (option vcon) :=
  if negb (contains kw tokens) then Ok None
  else
    do oc <- content_b kw tokens;
    match oc with
    | None => Ok (Some vcon_empty)
    | Some content =>
        do mn <- bound_b (L "min") content;
        do mx <- bound_b (L "max") content;
        do msg <- msg_b content;
        Ok (Some {| v_min := mn; v_max := mx; v_msg := msg |})
    end.

Record vattrs := { va_email : bool; va_url : bool; va_length : option vcon; va_range : option vcon }.
(* parse_validator_attributes on one #[validate(..)] whose tokens print as tokens *)
Definition validator_b (tokens : str) : outcome vattrs :=
  do l <- con_b (L "length") tokens;
  do r <- con_b (L "range") tokens;
  Ok {| va_email := contains (L "email") tokens; va_url := contains (L "url") tokens;
        va_length := l; va_range := r |}.

(* ================= serde_parser.rs ================= *)

Definition quoted_b (after_eq : str) : outcome (option str) :=
  match find_char """" after_eq with
  | None => Ok None
  | Some qs =>
      do r <- slice_from after_eq (qs + 1);
      match find_char """" r with
      | None => Ok None
      | Some qe => do v <- slice after_eq (qs + 1) (qs + 1 + qe); Ok (Some v)
      end
  end.

(* find_key (repair C06-8-9): `key` used as a whole attribute key - not preceded by an ASCII identifier
   character, followed after spaces by `=` or `(`; returns the text starting at that `=` / `(`.
   The slices: text[from..] (from = end of the previous occurrence), text[..at], text[from..] again *)
Definition ident_byte (b : ascii) : bool :=
  let n := byte_n b in
  ((48 <=? n)%N && (n <=? 57)%N) || ((65 <=? n)%N && (n <=? 90)%N) || ((97 <=? n)%N && (n <=? 122)%N) || Ascii.eqb b "_".
Fixpoint trim_spaces (s : str) : str := match s with b :: r => if Ascii.eqb b " " then trim_spaces r else s | [] => [] end.
Fixpoint find_key_go (fuel : nat) (text key : str) (from : nat) : outcome (option str) :=
  match fuel with
  | 0 => OutOfFuel
  | S f =>
      do t <- slice_from text from;
      match find key t with
      | None => Ok None
      | Some pos =>
          let at_ := from + pos in
          let from' := at_ + List.length key in
          do before <- slice_to text at_;
          if (match rev before with b :: _ => ident_byte b | [] => false end) then find_key_go f text key from'
          else
            do after <- slice_from text from';
            let rest := trim_spaces after in
            if starts (L "=") rest || starts (L "(") rest then Ok (Some rest) else find_key_go f text key from'
      end
  end.
Definition find_key_b (text key : str) : outcome (option str) := find_key_go (S (List.length text)) text key 0.

(* written_value: key = "v", or the serialize entry of key(serialize = "v", deserialize = "w") cut at the first `)` *)
Definition written_value_b (tokens key : str) : outcome (option str) :=
  do r <- find_key_b tokens key;
  match r with
  | None => Ok None
  | Some rest =>
      match strip_prefix (L "(") rest with
      | Some group =>
          do g <- slice_to group (match find_char ")" group with Some i => i | None => List.length group end);
          do s <- find_key_b g (L "serialize");
          match s with
          | Some r2 => match strip_prefix (L "=") r2 with Some t => quoted_b t | None => Ok None end
          | None => Ok None
          end
      | None => match strip_prefix (L "=") rest with Some t => quoted_b t | None => Ok None end
      end
  end.
(* parse_rename_all up to the value that goes to RenameRule::from_rename_all_str, and parse_rename *)
Definition rename_all_b (tokens : str) : outcome (option str) := written_value_b tokens (L "rename_all").
Definition rename_b (tokens : str) : outcome (option str) := written_value_b tokens (L "rename").

Definition skip_b (tokens : str) : bool := contains (L "skip") tokens && negb (contains (L "skip_serializing") tokens).

Record sattrs := { sa_rename : option str; sa_skip : bool; sa_rename_all : option str }.
(* parse_field_serde_attrs and parse_struct_serde_attrs on the same attribute *)
Definition serde_b (tokens : str) : outcome sattrs :=
  do r <- rename_b tokens;
  do ra <- rename_all_b tokens;
  Ok {| sa_rename := r; sa_skip := skip_b tokens; sa_rename_all := ra |}.

(* ================= type_resolver.rs ================= *)

Inductive tstruct :=
| TPrim (s : str) | TArr (t : tstruct) | TMap (k v : tstruct) | TSet (t : tstruct)
| TTuple (l : list tstruct) | TOpt (t : tstruct) | TRes (t : tstruct) | TCustom (s : str).

Definition one_of (s : str) (l : list string) : bool := existsb (fun x => str_eqb s (L x)) l.
Definition prim_of (s : str) : option str :=
  if one_of s ["String"; "str"; "&str"]%string then Some (L "string")
  else if one_of s ["i8"; "i16"; "i32"; "i64"; "i128"; "isize"; "u8"; "u16"; "u32"; "u64"; "u128"; "usize"; "f32"; "f64"]%string
       then Some (L "number")
  else if one_of s ["bool"]%string then Some (L "boolean")
  else if one_of s ["()"]%string then Some (L "void")
  else None.

(* extract_*: starts_with(tag) && ends_with('>') then &s[n .. len-1], n as written in the code *)
Definition wrapped_b (tag : str) (n : nat) (s : str) : outcome (option str) :=
  if starts tag s && ends_with_char ">" s
  then do i <- slice s n (List.length s - 1); Ok (Some i)
  else Ok None.

(* find_top_level_comma (repair C05-2-3): byte offset (char_indices) of the first comma outside
   <>, () and []; the signed depth is an i32 in the code, Z here *)
Definition opens (b : ascii) : bool := Ascii.eqb b "<" || Ascii.eqb b "(" || Ascii.eqb b "[".
Definition closes (b : ascii) : bool := Ascii.eqb b ">" || Ascii.eqb b ")" || Ascii.eqb b "]".
Fixpoint comma_top (d : Z) (s : str) : option nat :=
  match s with
  | [] => None
  | b :: r =>
      if opens b then option_map S (comma_top (d + 1) r)
      else if closes b then option_map S (comma_top (d - 1) r)
      else if Ascii.eqb b "," && (d =? 0)%Z then Some 0
      else option_map S (comma_top d r)
  end.
Definition find_top_level_comma (s : str) : option nat := comma_top 0 s.
(* the same scan with the depth as the i32 of the code: Panic when `depth += 1` / `depth -= 1` leaves the
   i32 range (what a build with overflow checks does; a release build wraps instead). Proofs/C15FunsProofs.v
   shows that below 2^31 - 1 bytes of input the range is never left, so comma_top (depth in Z) is exact. *)
Definition i32_ok (d : Z) : bool := (-2147483648 <=? d)%Z && (d <=? 2147483647)%Z.
Fixpoint comma_top_chk (d : Z) (s : str) : outcome (option nat) :=
  match s with
  | [] => Ok None
  | b :: r =>
      if opens b then
        (if i32_ok (d + 1) then do x <- comma_top_chk (d + 1) r; Ok (option_map S x) else Panic)
      else if closes b then
        (if i32_ok (d - 1) then do x <- comma_top_chk (d - 1) r; Ok (option_map S x) else Panic)
      else if Ascii.eqb b "," && (d =? 0)%Z then Ok (Some 0)
      else do x <- comma_top_chk d r; Ok (option_map S x)
  end.
(* split_top_level: the while-let loop with &rest[..pos] and &rest[pos + 1..] *)
Fixpoint split_top_go (fuel : nat) (rest : str) : outcome (list str) :=
  match fuel with
  | 0 => OutOfFuel
  | S f =>
      match find_top_level_comma rest with
      | Some pos =>
          do h <- slice_to rest pos; do r <- slice_from rest (pos + 1);
          do t <- split_top_go f r; Ok (h :: t)
      | None => Ok [rest]
      end
  end.
Definition split_top_level_b (s : str) : outcome (list str) := split_top_go (S (List.length s)) s.

Definition two_params_b (inner : str) : outcome (option (str * str)) :=
  match find_top_level_comma inner with
  | None => Ok None
  | Some p => do k <- slice_to inner p; do v <- slice_from inner (p + 1); Ok (Some (trim k, trim v))
  end.

Definition result_ok_b (s : str) : outcome (option str) :=
  do w <- wrapped_b (L "Result<") 7 s;
  match w with
  | None => Ok None
  | Some inner =>
      match find_top_level_comma inner with
      | Some c => do o <- slice_to inner c; Ok (Some (trim o))
      | None => Ok (Some inner)
      end
  end.
(* extract_hashmap_types(..).or_else(|| extract_btreemap_types(..)) *)
Definition map_b (s : str) : outcome (option (str * str)) :=
  do h <- wrapped_b (L "HashMap<") 8 s;
  do hk <- match h with Some inner => two_params_b inner | None => Ok None end;
  match hk with
  | Some kv => Ok (Some kv)
  | None =>
      do b <- wrapped_b (L "BTreeMap<") 9 s;
      match b with Some inner => two_params_b inner | None => Ok None end
  end.
Definition set_b (s : str) : outcome (option str) :=
  do h <- wrapped_b (L "HashSet<") 8 s;
  match h with Some i => Ok (Some i) | None => wrapped_b (L "BTreeSet<") 9 s end.
Definition tuple_b (s : str) : outcome (option (list str)) :=
  if starts (L "(") s && ends_with_char ")" s then
    do inner <- slice s 1 (List.length s - 1);
    match trim inner with
    | [] => Ok (Some [])
    | _ => do parts <- split_top_level_b inner; Ok (Some (map trim parts))
    end
  else Ok None.

Fixpoint parse_b (fuel : nat) (s0 : str) : outcome tstruct :=
  match fuel with
  | 0 => OutOfFuel
  | S f =>
    let s := trim s0 in
    match strip_prefix (L "&") s with
    | Some inner => parse_b f inner
    | None =>
    do o <- wrapped_b (L "Option<") 7 s;
    match o with
    | Some inner => do t <- parse_b f inner; Ok (TOpt t)
    | None =>
    do r <- result_ok_b s;
    match r with
    | Some okt => do t <- parse_b f okt; Ok (TRes t)
    | None =>
    do v <- wrapped_b (L "Vec<") 4 s;
    match v with
    | Some inner => do t <- parse_b f inner; Ok (TArr t)
    | None =>
    do m <- map_b s;
    match m with
    | Some (k, v) => do k' <- parse_b f k; do v' <- parse_b f v; Ok (TMap k' v')
    | None =>
    do st <- set_b s;
    match st with
    | Some inner => do t <- parse_b f inner; Ok (TSet t)
    | None =>
    do tu <- tuple_b s;
    match tu with
    | Some [] => Ok (TPrim (L "void"))
    | Some parts => do l <- mapM_b (fun t => parse_b f (trim t)) parts; Ok (TTuple l)
    | None =>
        match prim_of s with Some p => Ok (TPrim p) | None => Ok (TCustom s) end
    end end end end end end end
  end.
(* TypeResolver::parse_type_structure *)
Definition parse_type_structure_b (s : str) : outcome tstruct := parse_b (S (List.length s)) s.

(* ================= analysis/mod.rs extract_type_names_recursive ================= *)

Definition strip_wrapped (tag : str) (s : str) : option str :=
  match strip_prefix tag s with Some r => strip_suffix (L ">") r | None => None end.
Fixpoint trim_amps (s : str) : str := match s with b :: r => if Ascii.eqb b "&" then trim_amps r else s | [] => [] end.

Definition type_set : list string :=
  ["String"; "&str"; "str"; "i8"; "i16"; "i32"; "i64"; "i128"; "isize"; "u8"; "u16"; "u32"; "u64"; "u128"; "usize";
   "f32"; "f64"; "bool"; "()"; "HashMap"; "BTreeMap"; "HashSet"; "BTreeSet"]%string.
Definition ascii_lower (b : ascii) : bool := (97 <=? byte_n b)%N && (byte_n b <=? 122)%N.
Definition ascii_alpha (b : ascii) : bool := ascii_lower b || ((65 <=? byte_n b)%N && (byte_n b <=? 90)%N).
(* the leaf test; char::is_lowercase / char::is_alphabetic are exact on ASCII; a non-ASCII first
   character is reported as a name (the comparison with the code ignores such names) *)
Definition leaf_is_name (s : str) : bool :=
  match s with
  | [] => false
  | b :: _ =>
      negb (one_of s type_set)
      && (if is_ascii b then negb (ascii_lower b) && ascii_alpha b else true)
      && negb (contains_char "<" s)
  end.

Definition pair_b (fuel_call : str -> outcome (list str)) (inner : str) : outcome (list str) :=
  match find_top_level_comma inner with
  | Some c =>
      do a <- slice_to inner c; do b <- slice_from inner (c + 1);
      do x <- fuel_call (trim a); do y <- fuel_call (trim b); Ok (x ++ y)
  | None => Ok []
  end.

(* Result<..>: both arms, or the single argument of a one-argument alias (repaired) *)
Definition result_names_b (fuel_call : str -> outcome (list str)) (inner : str) : outcome (list str) :=
  match find_top_level_comma inner with
  | Some _ => pair_b fuel_call inner
  | None => fuel_call inner
  end.

Fixpoint names_go (fuel : nat) (s0 : str) : outcome (list str) :=
  match fuel with
  | 0 => OutOfFuel
  | S f =>
    let s := trim s0 in
    if starts (L "Result<") s then
      match strip_wrapped (L "Result<") s with Some inner => result_names_b (names_go f) inner | None => Ok [] end
    else if starts (L "Option<") s then
      match strip_wrapped (L "Option<") s with Some inner => names_go f inner | None => Ok [] end
    else if starts (L "Vec<") s then
      match strip_wrapped (L "Vec<") s with Some inner => names_go f inner | None => Ok [] end
    else if starts (L "HashMap<") s || starts (L "BTreeMap<") s then
      let prefix := if starts (L "HashMap<") s then L "HashMap<" else L "BTreeMap<" in
      match strip_wrapped prefix s with Some inner => pair_b (names_go f) inner | None => Ok [] end
    else if starts (L "HashSet<") s || starts (L "BTreeSet<") s then
      let prefix := if starts (L "HashSet<") s then L "HashSet<" else L "BTreeSet<" in
      match strip_wrapped prefix s with Some inner => names_go f inner | None => Ok [] end
    else if starts (L "(") s && ends_with_char ")" s && negb (str_eqb s (L "()")) then
      do inner <- slice s 1 (List.length s - 1);
      do parts <- split_top_level_b inner;
      do l <- mapM_b (fun p => names_go f (trim p)) parts;
      Ok (concat l)
    else if starts (L "&") s then names_go f (trim_amps s)
    else if leaf_is_name s then Ok [s] else Ok []
  end.
(* CommandAnalyzer::extract_type_names (the set is returned as a list, compared as a set) *)
Definition names_b (s : str) : outcome (list str) := names_go (S (List.length s)) s.

(* ================= generators/base/templates.rs add_types_prefix ================= *)

Definition unwrap {A} (o : option A) : outcome A := match o with Some a => Ok a | None => Panic end.
Fixpoint prefix_go (fuel : nat) (t : str) : outcome str :=
  match fuel with
  | 0 => OutOfFuel
  | S f =>
    if one_of t ["void"; "string"; "number"; "boolean"; "any"; "unknown"; "null"; "undefined"]%string then Ok t
    else match strip_suffix (L "[]") t with
    | Some base => do r <- prefix_go f base; Ok (r ++ L "[]")      (* repair C05-4: the element type is qualified recursively *)
    | None =>
    if starts (L "Record<") t || starts (L "Map<") t then Ok t
    else if ends_with (L " | null") t then
      do base <- unwrap (strip_suffix (L " | null") t);
      do r <- prefix_go f base; Ok (r ++ L " | null")
    else if ends_with (L " | undefined") t then
      do base <- unwrap (strip_suffix (L " | undefined") t);
      do r <- prefix_go f base; Ok (r ++ L " | undefined")
    else if starts (L "[") t && ends_with_char "]" t then Ok t
    else if starts (L "types.") t then Ok t
    else Ok (L "types." ++ t)
    end
  end.
Definition prefix_b (t : str) : outcome str := prefix_go (S (List.length t)) t.

(* ================= serde-rename-rule 0.2.3, apply_to_field, as called through NamingContext ================= *)

Inductive rule := RLower | RUpper | RPascal | RCamel | RSnake | RScreamingSnake | RKebab | RScreamingKebab.
Definition rule_of_str (s : str) : option rule :=
  if str_eqb s (L "lowercase") then Some RLower
  else if str_eqb s (L "UPPERCASE") then Some RUpper
  else if str_eqb s (L "PascalCase") then Some RPascal
  else if str_eqb s (L "camelCase") then Some RCamel
  else if str_eqb s (L "snake_case") then Some RSnake
  else if str_eqb s (L "SCREAMING_SNAKE_CASE") then Some RScreamingSnake
  else if str_eqb s (L "kebab-case") then Some RKebab
  else if str_eqb s (L "SCREAMING-KEBAB-CASE") then Some RScreamingKebab
  else None.

Definition is_us (c : ascii) : bool := Ascii.eqb c "_".
Definition up (c : ascii) : ascii := if ascii_lower c then ascii_of_N (byte_n c - 32) else c.       (* to_ascii_uppercase *)
Definition low (c : ascii) : ascii :=
  if (65 <=? byte_n c)%N && (byte_n c <=? 90)%N then ascii_of_N (byte_n c + 32) else c.             (* to_ascii_lowercase *)
Fixpoint pascal (cap : bool) (s : str) : str :=
  match s with
  | [] => []
  | c :: s' => if is_us c then pascal true s'
               else if cap then up c :: pascal false s' else c :: pascal false s'
  end.
Definition us_to_dash (s : str) : str := map (fun c => if is_us c then "-" else c) s.
(* CamelCase: pascal[..1].to_ascii_lowercase() + &pascal[1..] *)
Definition camel_b (s : str) : outcome str :=
  let p := pascal true s in
  do h <- slice_to p 1; do t <- slice_from p 1; Ok (map low h ++ t).
Definition apply_to_field_b (r : rule) (s : str) : outcome str :=
  match r with
  | RLower | RSnake => Ok s
  | RUpper | RScreamingSnake => Ok (map up s)
  | RPascal => Ok (pascal true s)
  | RCamel => camel_b s
  | RKebab => Ok (us_to_dash s)
  | RScreamingKebab => Ok (us_to_dash (map up s))
  end.
(* NamingContext::apply_naming_convention (repaired call-site guard): CamelCase is computed from the
   PascalCase form with chars(), never slicing; an empty PascalCase form returns the name unchanged *)
Definition naming_b (r : rule) (s : str) : outcome str :=
  match r with
  | RCamel => match pascal true s with [] => Ok s | c :: rest => Ok (low c :: rest) end
  | _ => apply_to_field_b r s
  end.
(* the default branch of compute_field_name / compute_parameter_name: the configured default_field_case /
   default_parameter_case (any string; an unknown convention name falls back to camelCase), applied
   through apply_naming_convention *)
Definition default_case_b (configured : str) (name : str) : outcome str :=
  naming_b (match rule_of_str configured with Some r => r | None => RCamel end) name.
(* NamingContext::event_name_to_function (repaired): every character that is not ASCII alphanumeric
   becomes one underscore, then PascalCase *)
Definition ascii_alnum (b : ascii) : bool := ascii_alpha b || ((48 <=? byte_n b)%N && (byte_n b <=? 57)%N).
Fixpoint norm_event (s : str) : str :=
  match s with
  | [] => []
  | b :: r => if is_cont b then norm_event r else (if ascii_alnum b then b else "_") :: norm_event r
  end.
Definition event_fn_b (name : str) : outcome str :=
  do p <- naming_b RPascal (norm_event name); Ok (L "on" ++ p).

(* serde-rename-rule apply_to_variant (its CamelCase arm slices variant[..1] / variant[1..]) and
   NamingContext::compute_variant_name (new with the variant-rule repair), which guards that arm.
   char::is_uppercase is exact on ASCII only: the value is compared with the code for ASCII names,
   the outcome for every name *)
Definition ascii_upper (b : ascii) : bool := (65 <=? byte_n b)%N && (byte_n b <=? 90)%N.
Fixpoint snake_go (first : bool) (s : str) : str :=
  match s with
  | [] => []
  | c :: r => (if negb first && ascii_upper c then ["_"] else []) ++ low c :: snake_go false r
  end.
Definition variant_camel_b (s : str) : outcome str :=
  do h <- slice_to s 1; do t <- slice_from s 1; Ok (map low h ++ t).
Definition apply_to_variant_b (r : rule) (s : str) : outcome str :=
  match r with
  | RPascal => Ok s
  | RLower => Ok (map low s)
  | RUpper => Ok (map up s)
  | RCamel => variant_camel_b s
  | RSnake => Ok (snake_go true s)
  | RScreamingSnake => Ok (map up (snake_go true s))
  | RKebab => Ok (us_to_dash (snake_go true s))
  | RScreamingKebab => Ok (us_to_dash (map up (snake_go true s)))
  end.

(* NamingContext::compute_variant_name without a variant-level rename: CamelCase lowers the first
   character itself (no slice; an empty name gives the empty string), the other rules go to the crate *)
Definition variant_b (r : rule) (s : str) : outcome str :=
  match r with
  | RCamel => match s with [] => Ok [] | c :: rest => Ok (low c :: rest) end
  | _ => apply_to_variant_b r s
  end.

(* ================= indexing of syn sequences in the AST walkers ================= *)

(* `seq[i]` on a Punctuated / Vec: panics when i is out of range *)
Definition index_b {A} (l : list A) (i : nat) : outcome A :=
  match nth_error l i with Some x => Ok x | None => Panic end.

(* event_parser.rs extract_emit_event: which arguments are the event name and the payload
   (emit(name, payload) / emit_to(label, name, payload)); None = the call is ignored *)
Definition emit_select {A} (emit_to : bool) (args : list A) : outcome (option (A * A)) :=
  if emit_to then
    (if (3 <=? List.length args)%nat then do n <- index_b args 1; do p <- index_b args 2; Ok (Some (n, p)) else Ok None)
  else
    (if (2 <=? List.length args)%nat then do n <- index_b args 0; do p <- index_b args 1; Ok (Some (n, p)) else Ok None).

(* command_parser.rs is_tauri_command on one attribute path (leading `::`, segments):
   len == 2 && seg[0] == tauri && seg[1] == command || path.is_ident(command); && short-circuits *)
Definition attr_is_command_b (leading_colon : bool) (segs : list str) : outcome bool :=
  do qualified <-
    (if (List.length segs =? 2)%nat then
       do s0 <- index_b segs 0;
       if str_eqb s0 (L "tauri") then do s1 <- index_b segs 1; Ok (str_eqb s1 (L "command")) else Ok false
     else Ok false);
  Ok (qualified || (negb leading_colon && match segs with [s] => str_eqb s (L "command") | _ => false end)).

(* command_parser.rs is_tauri_parameter_type on a type path without generic arguments: the
   tauri::X / tauri::ipc::X block (indexing segments[0..2]) and the fall-through on the last segment
   (only AppHandle and WebviewWindow match without generic arguments) *)
Definition tauri_param_plain_b (segs : list str) : outcome bool :=
  do early <-
    (if (2 <=? List.length segs)%nat then
       do s0 <- index_b segs 0;
       if str_eqb s0 (L "tauri") then
         if (List.length segs =? 2)%nat then
           do s1 <- index_b segs 1;
           Ok (Some (one_of s1 ["AppHandle"; "Window"; "WebviewWindow"; "State"; "Manager"]%string))
         else if (List.length segs =? 3)%nat then
           do s1 <- index_b segs 1;
           if str_eqb s1 (L "ipc") then do s2 <- index_b segs 2; Ok (Some (one_of s2 ["Request"; "Channel"]%string))
           else Ok None
         else Ok None
       else Ok None
     else Ok None);
  match early with
  | Some b => Ok b
  | None => Ok (match rev segs with l :: _ => one_of l ["AppHandle"; "WebviewWindow"]%string | [] => false end)
  end.
