(* C15 - the TEXT of the generation-cache hashes and the cache-hit path.
   GenerationCache::compute_hash writes a u64 with the format {:x}: lower-case hexadecimal WITHOUT
   zero padding, so a hash with k leading zero nibbles has 16 - k digits (the value 0 prints as
   one digit). Any fixed-width cut of such a text is a slice of the byte calculus and panics on a
   text shorter than the width. needs_regeneration_with_events and the cache-hit branches of
   run_generate (src/bin/cargo-tauri-typegen.rs) and BuildSystem::generate_bindings
   (src/build/mod.rs) only COMPARE the combined hash texts and print fixed messages.
   Definitions only; the facts are in Proofs/C15HashProofs.v. *)
From Coq Require Import String Ascii List Arith Bool NArith.
Require Import TT.Model.C15Utf8.
Import ListNotations.
Local Open Scope list_scope.

Definition hex_digit (d : N) : ascii :=
  if (d <? 10)%N then ascii_of_N (48 + d) else ascii_of_N (87 + d).

(* most significant digit first; fuel 16 suffices for a u64 *)
Fixpoint hex_go (fuel : nat) (n : N) (acc : str) : str :=
  match fuel with
  | O => acc
  | S f => if (n =? 0)%N then acc else hex_go f (n / 16)%N (hex_digit (n mod 16)%N :: acc)
  end.

(* format {:x} of a u64 *)
Definition hex (n : N) : str := if (n =? 0)%N then [hex_digit 0] else hex_go 16 n [].

(* a fixed-width abbreviation of a hash text, width w: the slice text[..w] *)
Definition abbrev_b (w : nat) (text : str) : outcome str := slice_to text w.

(* the cache file: version and the five hash texts (any text: the file is read back from disk) *)
Record cache := { c_version : N; c_commands : str; c_structs : str; c_config : str; c_combined : str; c_events : str }.

Inductive cache_step := Regenerate | UpToDate (printed : list str).

(* unforced run with a readable cache file and all outputs present: version test, then equality of
   the combined hash texts; on a hit the fixed status lines are printed (the first one under verbose) *)
Definition cache_hit_b (verbose : bool) (previous current : cache) : outcome cache_step :=
  if negb (c_version previous =? 1)%N then Ok Regenerate
  else if str_eqb (c_combined previous) (c_combined current)
       then Ok (UpToDate ((if verbose then [L "Cache hit - no changes detected, skipping generation"] else [])
                          ++ [L "TypeScript bindings are up to date"]))
       else Ok Regenerate.
