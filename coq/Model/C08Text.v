(* C08 round 7: the text level. A project as syntax (the item forms of Model/Pipeline.v), the analysis that
   turns it into the analysed data of C08Fingerprint.v (command_parser.rs / struct_parser.rs: rust_type =
   type_to_string, is_optional, serde rename / rename_all, skipped fields dropped), the projection view_of and
   the generated text of the existing text-level generator models (Pipeline.v, PipelineZod.v, Events.v) applied
   to the items in the order the generators receive them. Definitions only.
   The text-level models cover the default naming configuration (camelCase parameters, snake_case fields) and
   the documented feature set; type_mappings are applied to event payloads only (Events.map_events). *)
From Coq Require Import String Ascii List Arith Bool.
Require Import TT.Model.Str TT.Model.TypeParse TT.Model.Render TT.Spec.TsLex.
Require TT.Model.Pipeline TT.Model.PipelineZod TT.Model.Events.
Require Import TT.Model.C08Fingerprint TT.Model.C08Run.
Import ListNotations.
Local Open Scope list_scope.


(* ---- the project as syntax ---- *)
Record tfn := { t_def : Pipeline.fn_def; t_line : str }.
Record tfile := { tf_path : str; tf_structs : list Pipeline.struct_def; tf_fns : list tfn; tf_events : list event;
                  tf_ndefs : str }.
Definition tproject := list tfile.
Definition empty_tfile : tfile := {| tf_path := []; tf_structs := []; tf_fns := []; tf_events := []; tf_ndefs := [] |}.

(* ---- analysis: syntax -> analysed data (models.rs records) ---- *)
Definition kept (f : Pipeline.field) : bool := negb (Pipeline.skipped (Pipeline.f_serde f)).
Definition abs_field (f : Pipeline.field) : field :=
  {| f_name := Pipeline.f_name f; f_type := Pipeline.qtts (Pipeline.f_ty f); f_opt := Pipeline.is_option (Pipeline.f_ty f); f_pub := true;
     f_rename := Pipeline.rename_of (Pipeline.f_serde f); f_valid := None |}.
Definition abs_struct (path : str) (s : Pipeline.struct_def) : struct :=
  {| s_name := Pipeline.s_name s; s_file := path; s_enum := false;
     s_fields := map abs_field (filter kept (Pipeline.s_fields s)); s_rename_all := Pipeline.rename_all_of (Pipeline.s_serde s) |}.
Definition abs_param (p : str * Pipeline.qty) : param :=
  {| p_name := fst p; p_type := Pipeline.qtts (snd p); p_opt := Pipeline.is_option (snd p); p_rename := None |}.
Definition abs_chan (c : str * Pipeline.qty) : chan := {| ch_param := fst c; ch_msg := Pipeline.qtts (snd c) |}.
Definition abs_cmd (path : str) (t : tfn) : command :=
  {| c_name := Pipeline.fn_name (t_def t); c_file := path; c_line := t_line t;
     c_params := map abs_param (Pipeline.value_params (t_def t)); c_ret := Pipeline.ret_string (t_def t);
     c_async := Pipeline.fn_async (t_def t); c_chans := map abs_chan (Pipeline.channels (t_def t)); c_rename_all := None |}.
Definition is_cmd (t : tfn) : bool := Pipeline.is_tauri_command (t_def t).
Definition abs_file (f : tfile) : sfile :=
  {| sf_path := tf_path f; sf_cmds := map (abs_cmd (tf_path f)) (filter is_cmd (tf_fns f));
     sf_structs := map (abs_struct (tf_path f)) (tf_structs f); sf_events := tf_events f; sf_ndefs := tf_ndefs f |}.
Definition abs_project (p : tproject) : project := map abs_file p.

(* ---- the view: what the files are rendered from; the fingerprint at this level ---- *)
Definition view := list (fname * tree).
Definition view_of (w : sched) (p : tproject) (c : config) : view := files w (abs_project p) c.
Definition fp_t (w : sched) (p : tproject) (c : config) : tree := fp w (abs_project p) c.
Definition unhashed_t (w : sched) (p : tproject) (c : config) : list tree := unhashed w (abs_project p) c.

(* ---- the items in generation order: structs by name, commands by (relative) file, source order inside a file ---- *)
Definition t_structs (w : sched) (p : tproject) : list (str * Pipeline.struct_def) :=
  flat_map (fun f => map (pair (tf_path f)) (tf_structs f)) (pick empty_tfile p (w_files w)).
Definition t_cmds (w : sched) (p : tproject) : list (str * tfn) :=
  flat_map (fun f => map (pair (tf_path f)) (filter is_cmd (tf_fns f))) (pick empty_tfile p (w_files w)).
Definition abs_struct' (x : str * Pipeline.struct_def) : struct := abs_struct (fst x) (snd x).
Definition abs_cmd' (x : str * tfn) : command := abs_cmd (fst x) (snd x).
Definition sleb (a b : str * Pipeline.struct_def) : bool := struct_leb (abs_struct' a) (abs_struct' b).
Definition cleb (root : str) (a b : str * tfn) : bool := cmd_leb root (abs_cmd' a) (abs_cmd' b).
Definition gen_structs (w : sched) (p : tproject) : list Pipeline.struct_def := map snd (isort sleb (t_structs w p)).
Definition gen_cmds (w : sched) (p : tproject) (c : config) : list Pipeline.fn_def :=
  map (fun x => t_def (snd x)) (isort (cleb (g_ppath c)) (t_cmds w p)).

(* ---- the generated text (token streams in plain mode, text in zod mode and for events.ts) ---- *)
Definition types_ts (w : sched) (p : tproject) (c : config) : list tk := Pipeline.types_toks (gen_structs w p) (gen_cmds w p c).
Definition commands_ts (w : sched) (p : tproject) (c : config) : list tk := Pipeline.commands_toks (gen_cmds w p c).
Definition zod_types_ts (w : sched) (p : tproject) (c : config) : str := PipelineZod.zod_types_text (gen_structs w p) (gen_cmds w p c).
Definition zod_commands_ts (w : sched) (p : tproject) (c : config) : str := PipelineZod.zod_commands_text (gen_cmds w p c).
Definition ev_pairs (l : list event) : list (str * str) := map (fun e => (e_name e, e_payload e)) l.
Definition sorted_maps (c : config) : list (str * str) :=
  match g_maps c with None => [] | Some l => isort kv_leb l end.
Definition ev_text (w : sched) (p : tproject) (c : config) : str :=
  Events.events_text (Events.map_events (sorted_maps c) (ev_pairs (a_events (analyse w (abs_project p))))).
Definition events_ts (w : sched) (p : tproject) (c : config) : option str :=
  if has_events (analyse w (abs_project p)) then Some (ev_text w p c) else None.

(* ---- the write plan with text where a text-level model exists (types.ts, commands.ts in both modes, events.ts in
   plain mode) and the view elsewhere (index.ts, dependency-graph.*, events.ts in zod mode) ---- *)
Inductive content := CToks (l : list tk) | CText (s : str) | CView (v : tree).
Definition is_zod (c : config) : bool := str_eqb (g_lib c) (L "zod").
Definition text_content (w : sched) (p : tproject) (c : config) (f : fname) (v : tree) : content :=
  match f with
  | Types => if is_zod c then CText (zod_types_ts w p c) else CToks (types_ts w p c)
  | Commands => if is_zod c then CText (zod_commands_ts w p c) else CToks (commands_ts w p c)
  | Events => if is_zod c then CView v else CText (ev_text w p c)
  | _ => CView v
  end.
Definition text_files (w : sched) (p : tproject) (c : config) : list (fname * content) :=
  map (fun fx => (fst fx, text_content w p c (fst fx) (snd fx))) (view_of w p c).
Definition has_commands_t (p : tproject) : bool := has_commands (abs_project p).

(* ---- the same text as a function of the analysed data alone ---- *)
Definition ts_of_s (s : str) : str := match parse_type_structure s with Some ts => render ts | None => [] end.
Definition ret_ts_s (s : str) : str :=
  match parse_type_structure s with Some ts => Pipeline.add_types_prefix (render ts) | None => [] end.
Definition zschema_of_s (s : str) : str :=
  match parse_type_structure s with Some ts => PipelineZod.zrender ts false | None => [] end.
Definition key_a (ra : option str) (f : field) : str :=
  match f_rename f with
  | Some v => v
  | None => match ra with
            | Some r => if str_eqb r (L "camelCase") then Pipeline.camel (f_name f)
                        else if str_eqb r (L "PascalCase") then Pipeline.pascal true (f_name f) else f_name f
            | None => f_name f
            end
  end.
Definition ST3 (name : str) (fields : list field) (ra : option str) : list tk :=
  [Pipeline.I "export"; Pipeline.I "interface"; KId name; Pipeline.Pn "{"] ++
  flat_map (fun f => Pipeline.member_toks (key_a ra f) (f_opt f) (ts_of_s (f_type f))) fields ++ [Pipeline.Pn "}"].
Definition ST (s : struct) : list tk := ST3 (s_name s) (s_fields s) (s_rename_all s).
Definition PT3 (name : str) (ps : list param) (cs : list chan) : list tk :=
  match ps, cs with
  | [], [] => []
  | vs, cs =>
      [Pipeline.I "export"; Pipeline.I "interface"; KId (Pipeline.pascal true name ++ L "Params"); Pipeline.Pn "{"] ++
      flat_map (fun p => Pipeline.member_toks (Pipeline.camel (p_name p)) (p_opt p) (ts_of_s (p_type p))) vs ++
      flat_map (fun c => Pipeline.ty_toks (Pipeline.camel (ch_param c)) ++ [Pipeline.Pn ":"; Pipeline.I "Channel"; Pipeline.Pn "<"] ++ Pipeline.ty_toks (ts_of_s (ch_msg c)) ++ [Pipeline.Pn ">"; Pipeline.Pn ";"]) cs ++
      [Pipeline.Pn "["; Pipeline.I "key"; Pipeline.Pn ":"; Pipeline.I "string"; Pipeline.Pn "]"; Pipeline.Pn ":"; Pipeline.I "unknown"; Pipeline.Pn ";"; Pipeline.Pn "}"]
  end.
Definition PT (k : command) : list tk := PT3 (c_name k) (c_params k) (c_chans k).
Definition has_chan_a (cl : list command) : bool := existsb (fun k => negb (Nat.eqb (List.length (c_chans k)) 0)) cl.
Definition types_toks_a (sl : list struct) (cl : list command) : list tk :=
  (if has_chan_a cl
   then [Pipeline.I "import"; Pipeline.I "type"; Pipeline.Pn "{"; Pipeline.I "Channel"; Pipeline.Pn "}"; Pipeline.I "from"; Pipeline.S1 "@tauri-apps/api/core"; Pipeline.Pn ";"] else []) ++
  flat_map ST sl ++ flat_map PT cl.
Definition WT4 (name : str) (np nc : nat) (ret : str) : list tk :=
  let has := negb (Nat.eqb (np + nc) 0) in
  [Pipeline.I "export"; Pipeline.I "async"; Pipeline.I "function"; KId (Pipeline.camel name); Pipeline.Pn "("] ++
  (if has then [Pipeline.I "params"; Pipeline.Pn ":"; Pipeline.I "types"; Pipeline.Pn "."; KId (Pipeline.pascal true name ++ L "Params")] else []) ++
  [Pipeline.Pn ")"; Pipeline.Pn ":"; Pipeline.I "Promise"; Pipeline.Pn "<"] ++ Pipeline.ty_toks (ret_ts_s ret) ++
  [Pipeline.Pn ">"; Pipeline.Pn "{"; Pipeline.I "return"; Pipeline.I "invoke"; Pipeline.Pn "("; KStr "'"%char name] ++
  (if has then [Pipeline.Pn ","; Pipeline.I "params"] else []) ++ [Pipeline.Pn ")"; Pipeline.Pn ";"; Pipeline.Pn "}"].
Definition WT (k : command) : list tk := WT4 (c_name k) (List.length (c_params k)) (List.length (c_chans k)) (c_ret k).
Definition commands_toks_a (cl : list command) : list tk :=
  [Pipeline.I "import"; Pipeline.Pn "{"; Pipeline.I "invoke"] ++
  (if has_chan_a cl then [Pipeline.Pn ","; Pipeline.I "Channel"] else []) ++
  [Pipeline.Pn "}"; Pipeline.I "from"; Pipeline.S1 "@tauri-apps/api/core"; Pipeline.Pn ";";
   Pipeline.I "import"; Pipeline.Pn "*"; Pipeline.I "as"; Pipeline.I "types"; Pipeline.I "from"; Pipeline.S1 "./types"; Pipeline.Pn ";"] ++
  flat_map WT cl.

(* zod mode: PipelineZod.v on the analysed data *)
Definition ZST3 (name : str) (fields : list field) (ra : option str) : str :=
  PipelineZod.cat [PipelineZod.T "export const "; name; PipelineZod.T "Schema = z.object({ "] ++
  PipelineZod.cat (map (fun f => PipelineZod.cat [key_a ra f; PipelineZod.T ": "; zschema_of_s (f_type f); PipelineZod.T ", "]) fields) ++
  PipelineZod.cat [PipelineZod.T "}); export type "; name; PipelineZod.T " = z.infer<typeof "; name; PipelineZod.T "Schema>; "].
Definition ZST (s : struct) : str := ZST3 (s_name s) (s_fields s) (s_rename_all s).
Definition ZPS2 (name : str) (ps : list param) : str :=
  match ps with
  | [] => []
  | vs => PipelineZod.cat [PipelineZod.T "export const "; Pipeline.pascal true name; PipelineZod.T "ParamsSchema = z.object({ "] ++
          PipelineZod.cat (map (fun p => PipelineZod.cat [Pipeline.camel (p_name p); PipelineZod.T ": "; zschema_of_s (p_type p); (if p_opt p then PipelineZod.T ".optional()" else []); PipelineZod.T ", "]) vs) ++
          PipelineZod.T "}); "
  end.
Definition ZPS (k : command) : str := ZPS2 (c_name k) (c_params k).
Definition ZCM (cs : list chan) : str :=
  PipelineZod.cat (map (fun c => PipelineZod.cat [Pipeline.camel (ch_param c); PipelineZod.T ": Channel<"; ts_of_s (ch_msg c); PipelineZod.T ">; "]) cs).
Definition ZAL3 (name : str) (ps : list param) (cs : list chan) : str :=
  let tn := Pipeline.pascal true name in
  match ps, cs with
  | [], [] => []
  | [], _ => PipelineZod.cat [PipelineZod.T "export interface "; tn; PipelineZod.T "Params { "; ZCM cs; PipelineZod.T "[key: string]: unknown; } "]
  | _, [] => PipelineZod.cat [PipelineZod.T "export type "; tn; PipelineZod.T "Params = z.infer<typeof "; tn; PipelineZod.T "ParamsSchema>; "]
  | _, _ => PipelineZod.cat [PipelineZod.T "export interface "; tn; PipelineZod.T "Params extends z.infer<typeof "; tn; PipelineZod.T "ParamsSchema> { "; ZCM cs; PipelineZod.T "} "]
  end.
Definition ZAL (k : command) : str := ZAL3 (c_name k) (c_params k) (c_chans k).
Definition zod_types_a (sl : list struct) (cl : list command) : str :=
  PipelineZod.T "import { z } from 'zod'; " ++
  (if has_chan_a cl then PipelineZod.T "import type { Channel } from '@tauri-apps/api/core'; " else []) ++
  PipelineZod.cat (map ZST sl) ++ PipelineZod.cat (map ZPS cl) ++ PipelineZod.cat (map ZAL cl).
Definition ZWT4 (nm : str) (np : nat) (cs : list chan) (ret_s : str) : str :=
  let ret := ret_ts_s ret_s in
  let hp := negb (Nat.eqb np 0) in
  let hc := negb (Nat.eqb (List.length cs) 0) in
  let tn := Pipeline.pascal true nm in
  if hp || hc then
    PipelineZod.cat [PipelineZod.T "export async function "; Pipeline.camel nm; PipelineZod.T "(params: types."; tn; PipelineZod.T "Params, hooks?: CommandHooks<"; ret; PipelineZod.T ">): Promise<"; ret; PipelineZod.T "> { try { "] ++
    (if hp then
       PipelineZod.cat [PipelineZod.T "const result = types."; tn; PipelineZod.T "ParamsSchema.safeParse(params); if (!result.success) { hooks?.onValidationError?.(result.error); throw result.error; } "] ++
       (if hc then
          PipelineZod.cat [PipelineZod.T "const data = await invoke<"; ret; PipelineZod.T ">('"; nm; PipelineZod.T "', { ...result.data, "] ++
          join (PipelineZod.T ", ") (map (fun c => PipelineZod.cat [Pipeline.camel (ch_param c); PipelineZod.T ": params."; Pipeline.camel (ch_param c)]) cs) ++ PipelineZod.T " }); "
        else PipelineZod.cat [PipelineZod.T "const data = await invoke<"; ret; PipelineZod.T ">('"; nm; PipelineZod.T "', result.data); "])
     else PipelineZod.cat [PipelineZod.T "const data = await invoke<"; ret; PipelineZod.T ">('"; nm; PipelineZod.T "', params); "]) ++
    PipelineZod.T "hooks?.onSuccess?.(data); return data; } catch (error) { " ++
    (if hp then PipelineZod.T "if (!(error instanceof ZodError)) { hooks?.onInvokeError?.(error); } " else PipelineZod.T "hooks?.onInvokeError?.(error); ") ++
    PipelineZod.T "throw error; } finally { hooks?.onSettled?.(); } } "
  else
    PipelineZod.cat [PipelineZod.T "export async function "; Pipeline.camel nm; PipelineZod.T "(hooks?: CommandHooks<"; ret; PipelineZod.T ">): Promise<"; ret; PipelineZod.T "> { try { const data = await invoke<"; ret; PipelineZod.T ">('"; nm;
         PipelineZod.T "'); hooks?.onSuccess?.(data); return data; } catch (error) { hooks?.onInvokeError?.(error); throw error; } finally { hooks?.onSettled?.(); } } "].
Definition ZWT (k : command) : str := ZWT4 (c_name k) (List.length (c_params k)) (c_chans k) (c_ret k).
Definition zod_commands_a (cl : list command) : str :=
  (if has_chan_a cl then PipelineZod.T "import { invoke, Channel } from '@tauri-apps/api/core'; " else PipelineZod.T "import { invoke } from '@tauri-apps/api/core'; ") ++
  PipelineZod.T "import { ZodError } from 'zod'; import * as types from './types'; " ++ PipelineZod.hooks_text ++ PipelineZod.cat (map ZWT cl).

(* the items in hash order = generation order *)
Definition a_structs_sorted (a : analysis) : list struct := isort struct_leb (a_structs a).
Definition a_cmds_sorted (root : str) (a : analysis) : list command := isort (cmd_leb root) (a_cmds a).

(* ---- the run / cache state machine of C08Run.v over syntax-level projects and text-level contents: the same control
   flow (fingerprint of the analysed data, presence test over the same file names), the files hold text ---- *)
Definition tstate := state tproject config fname content tree.
Definition top := op tproject config sched fname.
Definition tgen := gen tproject config sched.
Definition run_t : sched -> bool -> option nat -> tstate -> result * tstate :=
  run tproject config sched fname content tree fname_eqb tree_eqb text_files fp_t has_commands_t g_force true.
Definition stepG_t : tstate * option tgen -> top -> tstate * option tgen :=
  stepG tproject config sched fname content tree fname_eqb tree_eqb text_files fp_t has_commands_t g_force true.
Definition cache_hit_t : sched -> tstate -> bool :=
  cache_hit tproject config sched fname content tree tree_eqb text_files fp_t true.
Definition init_t (p : tproject) (c : config) : tstate :=
  {| s_src := p; s_cfg := c; s_out := fun _ => None; s_cache := None |}.
(* the recorded class 8 at this level: same predicate as kf_C08, on the analysed data of the syntax-level project *)
Definition kf_C08_t (w : sched) (sg : tstate * option tgen) : list nat :=
  let (st, g) := sg in
  if has_commands_t (s_src st) && negb (g_force (s_cfg st)) && cache_hit_t w st then
    match g with
    | Some (w0, p0, c0) =>
        if tree_eqb (fp_t w0 p0 c0) (fp_t w (s_src st) (s_cfg st))
        then (if tree_eqb (u_lines (analyse w0 (abs_project p0)) c0) (u_lines (analyse w (abs_project (s_src st))) (s_cfg st))
              then [] else [8])
        else []
    | None => []
    end
  else [].

(* ---- a sample: the project of Pipeline.v in two files ---- *)
Definition ex_tp (name : str) (fname0 : str) : tproject :=
  [ {| tf_path := L "src-tauri/src/b.rs"; tf_structs := []; tf_fns := map (fun f => {| t_def := f; t_line := L "7" |}) (skipn 2 Pipeline.fns);
       tf_events := []; tf_ndefs := L "0" |};
    {| tf_path := L "src-tauri/src/a.rs";
       tf_structs := [ {| Pipeline.s_name := name; Pipeline.s_serde := Pipeline.s_serde Pipeline.user;
                          Pipeline.s_fields := {| Pipeline.f_name := fname0; Pipeline.f_ty := Pipeline.T0 "i32"; Pipeline.f_serde := [] |} :: tl (Pipeline.s_fields Pipeline.user) |} ];
       tf_fns := map (fun f => {| t_def := f; t_line := L "3" |}) (firstn 2 Pipeline.fns);
       tf_events := [ {| e_name := L "ping"; e_payload := L "String" |} ]; tf_ndefs := L "1" |} ].
Definition ex_tc : config :=
  {| g_lib := L "none"; g_private := false; g_maps := None; g_pcase := L "camelCase"; g_fcase := L "snake_case";
     g_viz := false; g_force := false; g_ppath := L "src-tauri" |}.
Definition ex_w01 : sched := {| w_files := [0; 1]; w_maps := [] |}.
Definition ex_w10 : sched := {| w_files := [1; 0]; w_maps := [] |}.
