(* C08 round 7: the text level. A project as syntax (the item forms of Model/Pipeline.v), the analysis that
   turns it into the analysed data of C08Fingerprint.v (command_parser.rs / struct_parser.rs: rust_type =
   type_to_string, is_optional, serde rename / rename_all, skipped fields dropped), the projection view_of and
   the generated text of the existing text-level generator models (Pipeline.v, PipelineZod.v, Events.v) applied
   to the items in the order the generators receive them. Definitions only.
   The text-level models cover the default naming configuration (camelCase parameters, snake_case fields) and
   the documented feature set; type_mappings are applied to event payloads only (Events.map_events). *)
From Coq Require Import String Ascii List Arith Bool.
Require Import TT.Model.Str TT.Model.TypeParse TT.Model.Render TT.Spec.TsLex.
Require TT.Model.Pipeline TT.Model.PipelineZod TT.Model.Events.
Require Import TT.Model.C08Fingerprint.
Import ListNotations.
Local Open Scope list_scope.

Module P := TT.Model.Pipeline.
Module PZ := TT.Model.PipelineZod.
Module EV := TT.Model.Events.

(* ---- the project as syntax ---- *)
Record tfn := { t_def : P.fn_def; t_line : str }.
Record tfile := { tf_path : str; tf_structs : list P.struct_def; tf_fns : list tfn; tf_events : list event;
                  tf_ndefs : str }.
Definition tproject := list tfile.
Definition empty_tfile : tfile := {| tf_path := []; tf_structs := []; tf_fns := []; tf_events := []; tf_ndefs := [] |}.

(* ---- analysis: syntax -> analysed data (models.rs records) ---- *)
Definition kept (f : P.field) : bool := negb (P.skipped (P.f_serde f)).
Definition abs_field (f : P.field) : field :=
  {| f_name := P.f_name f; f_type := P.qtts (P.f_ty f); f_opt := P.is_option (P.f_ty f); f_pub := true;
     f_rename := P.rename_of (P.f_serde f); f_valid := None |}.
Definition abs_struct (path : str) (s : P.struct_def) : struct :=
  {| s_name := P.s_name s; s_file := path; s_enum := false;
     s_fields := map abs_field (filter kept (P.s_fields s)); s_rename_all := P.rename_all_of (P.s_serde s) |}.
Definition abs_param (p : str * P.qty) : param :=
  {| p_name := fst p; p_type := P.qtts (snd p); p_opt := P.is_option (snd p); p_rename := None |}.
Definition abs_chan (c : str * P.qty) : chan := {| ch_param := fst c; ch_msg := P.qtts (snd c) |}.
Definition abs_cmd (path : str) (t : tfn) : command :=
  {| c_name := P.fn_name (t_def t); c_file := path; c_line := t_line t;
     c_params := map abs_param (P.value_params (t_def t)); c_ret := P.ret_string (t_def t);
     c_async := P.fn_async (t_def t); c_chans := map abs_chan (P.channels (t_def t)); c_rename_all := None |}.
Definition is_cmd (t : tfn) : bool := P.is_tauri_command (t_def t).
Definition abs_file (f : tfile) : sfile :=
  {| sf_path := tf_path f; sf_cmds := map (abs_cmd (tf_path f)) (filter is_cmd (tf_fns f));
     sf_structs := map (abs_struct (tf_path f)) (tf_structs f); sf_events := tf_events f; sf_ndefs := tf_ndefs f |}.
Definition abs_project (p : tproject) : project := map abs_file p.

(* ---- the view: what the files are rendered from; the fingerprint at this level ---- *)
Definition view := list (fname * tree).
Definition view_of (w : sched) (p : tproject) (c : config) : view := files w (abs_project p) c.
Definition fp_t (w : sched) (p : tproject) (c : config) : tree := fp w (abs_project p) c.
Definition unhashed_t (w : sched) (p : tproject) (c : config) : list tree := unhashed w (abs_project p) c.

(* ---- the items in generation order: structs by name, commands by (relative) file, source order inside a file ---- *)
Definition t_structs (w : sched) (p : tproject) : list (str * P.struct_def) :=
  flat_map (fun f => map (pair (tf_path f)) (tf_structs f)) (pick empty_tfile p (w_files w)).
Definition t_cmds (w : sched) (p : tproject) : list (str * tfn) :=
  flat_map (fun f => map (pair (tf_path f)) (filter is_cmd (tf_fns f))) (pick empty_tfile p (w_files w)).
Definition abs_struct' (x : str * P.struct_def) : struct := abs_struct (fst x) (snd x).
Definition abs_cmd' (x : str * tfn) : command := abs_cmd (fst x) (snd x).
Definition sleb (a b : str * P.struct_def) : bool := struct_leb (abs_struct' a) (abs_struct' b).
Definition cleb (root : str) (a b : str * tfn) : bool := cmd_leb root (abs_cmd' a) (abs_cmd' b).
Definition gen_structs (w : sched) (p : tproject) : list P.struct_def := map snd (isort sleb (t_structs w p)).
Definition gen_cmds (w : sched) (p : tproject) (c : config) : list P.fn_def :=
  map (fun x => t_def (snd x)) (isort (cleb (g_ppath c)) (t_cmds w p)).

(* ---- the generated text (token streams in plain mode, text in zod mode and for events.ts) ---- *)
Definition types_ts (w : sched) (p : tproject) (c : config) : list tk := P.types_toks (gen_structs w p) (gen_cmds w p c).
Definition commands_ts (w : sched) (p : tproject) (c : config) : list tk := P.commands_toks (gen_cmds w p c).
Definition zod_types_ts (w : sched) (p : tproject) (c : config) : str := PZ.zod_types_text (gen_structs w p) (gen_cmds w p c).
Definition zod_commands_ts (w : sched) (p : tproject) (c : config) : str := PZ.zod_commands_text (gen_cmds w p c).
Definition ev_pairs (l : list event) : list (str * str) := map (fun e => (e_name e, e_payload e)) l.
Definition sorted_maps (c : config) : list (str * str) :=
  match g_maps c with None => [] | Some l => isort kv_leb l end.
Definition events_ts (w : sched) (p : tproject) (c : config) : option str :=
  let a := analyse w (abs_project p) in
  if has_events a then Some (EV.events_text (EV.map_events (sorted_maps c) (ev_pairs (a_events a)))) else None.

(* ---- the same text as a function of the analysed data alone ---- *)
Definition ts_of_s (s : str) : str := match parse_type_structure s with Some ts => render ts | None => [] end.
Definition ret_ts_s (s : str) : str :=
  match parse_type_structure s with Some ts => P.add_types_prefix (render ts) | None => [] end.
Definition zschema_of_s (s : str) : str :=
  match parse_type_structure s with Some ts => PZ.zrender ts false | None => [] end.
Definition key_a (ra : option str) (f : field) : str :=
  match f_rename f with
  | Some v => v
  | None => match ra with
            | Some r => if str_eqb r (L "camelCase") then P.camel (f_name f)
                        else if str_eqb r (L "PascalCase") then P.pascal true (f_name f) else f_name f
            | None => f_name f
            end
  end.
Definition ST3 (name : str) (fields : list field) (ra : option str) : list tk :=
  [P.I "export"; P.I "interface"; KId name; P.Pn "{"] ++
  flat_map (fun f => P.member_toks (key_a ra f) (f_opt f) (ts_of_s (f_type f))) fields ++ [P.Pn "}"].
Definition ST (s : struct) : list tk := ST3 (s_name s) (s_fields s) (s_rename_all s).
Definition PT3 (name : str) (ps : list param) (cs : list chan) : list tk :=
  match ps, cs with
  | [], [] => []
  | vs, cs =>
      [P.I "export"; P.I "interface"; KId (P.pascal true name ++ L "Params"); P.Pn "{"] ++
      flat_map (fun p => P.member_toks (P.camel (p_name p)) (p_opt p) (ts_of_s (p_type p))) vs ++
      flat_map (fun c => P.ty_toks (P.camel (ch_param c)) ++ [P.Pn ":"; P.I "Channel"; P.Pn "<"] ++ P.ty_toks (ts_of_s (ch_msg c)) ++ [P.Pn ">"; P.Pn ";"]) cs ++
      [P.Pn "["; P.I "key"; P.Pn ":"; P.I "string"; P.Pn "]"; P.Pn ":"; P.I "unknown"; P.Pn ";"; P.Pn "}"]
  end.
Definition PT (k : command) : list tk := PT3 (c_name k) (c_params k) (c_chans k).
Definition has_chan_a (cl : list command) : bool := existsb (fun k => negb (Nat.eqb (List.length (c_chans k)) 0)) cl.
Definition types_toks_a (sl : list struct) (cl : list command) : list tk :=
  (if has_chan_a cl
   then [P.I "import"; P.I "type"; P.Pn "{"; P.I "Channel"; P.Pn "}"; P.I "from"; P.S1 "@tauri-apps/api/core"; P.Pn ";"] else []) ++
  flat_map ST sl ++ flat_map PT cl.
Definition WT4 (name : str) (np nc : nat) (ret : str) : list tk :=
  let has := negb (Nat.eqb (np + nc) 0) in
  [P.I "export"; P.I "async"; P.I "function"; KId (P.camel name); P.Pn "("] ++
  (if has then [P.I "params"; P.Pn ":"; P.I "types"; P.Pn "."; KId (P.pascal true name ++ L "Params")] else []) ++
  [P.Pn ")"; P.Pn ":"; P.I "Promise"; P.Pn "<"] ++ P.ty_toks (ret_ts_s ret) ++
  [P.Pn ">"; P.Pn "{"; P.I "return"; P.I "invoke"; P.Pn "("; KStr "'"%char name] ++
  (if has then [P.Pn ","; P.I "params"] else []) ++ [P.Pn ")"; P.Pn ";"; P.Pn "}"].
Definition WT (k : command) : list tk := WT4 (c_name k) (List.length (c_params k)) (List.length (c_chans k)) (c_ret k).
Definition commands_toks_a (cl : list command) : list tk :=
  [P.I "import"; P.Pn "{"; P.I "invoke"] ++
  (if has_chan_a cl then [P.Pn ","; P.I "Channel"] else []) ++
  [P.Pn "}"; P.I "from"; P.S1 "@tauri-apps/api/core"; P.Pn ";";
   P.I "import"; P.Pn "*"; P.I "as"; P.I "types"; P.I "from"; P.S1 "./types"; P.Pn ";"] ++
  flat_map WT cl.

(* the items in hash order = generation order *)
Definition a_structs_sorted (a : analysis) : list struct := isort struct_leb (a_structs a).
Definition a_cmds_sorted (root : str) (a : analysis) : list command := isort (cmd_leb root) (a_cmds a).

(* ---- a sample: the project of Pipeline.v in two files ---- *)
Definition ex_tp (name : str) (fname0 : str) : tproject :=
  [ {| tf_path := L "src-tauri/src/b.rs"; tf_structs := []; tf_fns := map (fun f => {| t_def := f; t_line := L "7" |}) (skipn 2 P.fns);
       tf_events := []; tf_ndefs := L "0" |};
    {| tf_path := L "src-tauri/src/a.rs";
       tf_structs := [ {| P.s_name := name; P.s_serde := P.s_serde P.user;
                          P.s_fields := {| P.f_name := fname0; P.f_ty := P.T0 "i32"; P.f_serde := [] |} :: tl (P.s_fields P.user) |} ];
       tf_fns := map (fun f => {| t_def := f; t_line := L "3" |}) (firstn 2 P.fns);
       tf_events := [ {| e_name := L "ping"; e_payload := L "String" |} ]; tf_ndefs := L "1" |} ].
Definition ex_tc : config :=
  {| g_lib := L "none"; g_private := false; g_maps := None; g_pcase := L "camelCase"; g_fcase := L "snake_case";
     g_viz := false; g_force := false; g_ppath := L "src-tauri" |}.
Definition ex_w01 : sched := {| w_files := [0; 1]; w_maps := [] |}.
Definition ex_w10 : sched := {| w_files := [1; 0]; w_maps := [] |}.
