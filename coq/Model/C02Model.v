(* C02 model: what the generator exports, imports and mentions, per file and per mode, as name
   sets (tokens are C01's business). Faithful to /repo, defects included:
     analysis/mod.rs          analyze_project (harvest of type names, resolve_types_lazily)
     generators/mod.rs        TypeCollector::collect_used_types (+ the event loop of generate_models)
     base/templates.rs        add_types_prefix, transcribed on the shape of the rendered type
     ts|zod/templates/*.tera  which names each file declares / mentions
     analysis/event_parser.rs payload type = last path segment of the variable's declared type
   State of the code: /repo with the accepted repairs of batch 2 (fixes/proposed): Zod enum alias,
   one-argument Result harvested, dependencies of event payload types declared, one listener per
   distinct event name with every non-alphanumeric character mangled to an underscore,
   ipc::Channel recognised, files visited in sorted order; and of batch 3: commas split only
   outside brackets (resolver and harvester), add_types_prefix recursing below [].
   Definitions only. *)
From Coq Require Import String Ascii.
From Coq Require Import List Arith Bool ZArith.
Require Import TT.Model.Str TT.Model.C07TypeParse TT.Model.C07Harvest TT.Model.Pipeline.
Require Import TT.Spec.TsLex TT.Spec.TsModule TT.Spec.TsObs TT.Spec.C02Closed.
Import ListNotations.
Local Open Scope list_scope.

(* ---------------- input: a proj, files concatenated ---------------- *)
Record sfield := { sf_ty : qty; sf_skip : bool }.
Inductive payload := PVar (n : str) | PUnit | PStr | PInt | PBool | PStruct (n : str) | POther.
Record emit_site := { em_name : str; em_recv : str; em_payload : payload }.
(* statements of a function body, as far as event_parser.rs distinguishes them: let bindings
   (untyped with an initialiser, or typed) and emit calls *)
Inductive init := IStruct (n : str) | ICall (head : str) | IVar (w : str) | IRef (i : init) | IOther.
Inductive stmt := SLet (v : str) (i : init) | SLetTy (v : str) (t : qty) | SEmit (e : emit_site).
Inductive ritem :=
| RStruct (name : str) (serde named : bool) (fields : list sfield)     (* named = false: tuple struct *)
| REnum (name : str) (serde : bool)
| RFn (name : str) (is_cmd : bool) (params : list (str * qty)) (ret : option qty) (body : list stmt)
| ROther.
Record proj := { pj_items : list ritem; pj_maps : list (str * str) }.

Fixpoint assoc (k : str) (l : list (str * str)) : option str :=
  match l with [] => None | (a, b) :: r => if str_eqb k a then Some b else assoc k r end.
Fixpoint dedup (l : list str) : list str :=
  match l with [] => [] | x :: r => if mem x r then dedup r else x :: dedup r end.

Definition S_ (s : string) : str := L s.
Local Open Scope string_scope.
Local Open Scope list_scope.

(* ---------------- analysis ---------------- *)
Record cmd := { c_name : str; c_params : list (str * qty); c_ret : option qty }.
Definition cmds (p : proj) : list cmd :=
  flat_map (fun it => match it with RFn n true ps r _ => [{| c_name := n; c_params := ps; c_ret := r |}] | _ => [] end) (pj_items p).
Definition vparams (c : cmd) : list (str * qty) := filter (fun x => negb (is_tauri_parameter_type (snd x))) (c_params c).
(* channel_parser.rs is_channel_segment: bare Channel, tauri::..::Channel, ipc::Channel *)
Definition chan_msg (t : qty) : option qty :=
  match t with
  | QPath segs n true (a :: _) =>
      if str_eqb n (S_ "Channel") &&
         match segs with
         | [] => true
         | s0 :: rest => str_eqb s0 (S_ "tauri") || (str_eqb s0 (S_ "ipc") && match rest with [] => true | _ => false end)
         end
      then Some a else None
  | _ => None
  end.
Definition chans (c : cmd) : list (str * qty) :=
  flat_map (fun x => match chan_msg (snd x) with Some m => [(fst x, m)] | None => [] end) (c_params c).
Definition ret_str (c : cmd) : str := match c_ret c with Some t => qtts t | None => S_ "()" end.
(* TypeResolver::parse_type_structure and the harvester after the repairs (top-level commas only,
   one-argument Result harvested) are the models of the C07 worker, imported read-only:
   Model/C07TypeParse.v (parse, tstruct, rty, tts) and Model/C07Harvest.v (harvest); their
   faithfulness theorems (Proofs/C07TypeParseProofs.v, C07HarvestProofs.v) are used in Proofs/C02World.v *)
Definition pts (s : str) : tstruct := match parse_type_structure s with Some t => t | None => TCustom s end.
Definition has_p (c : cmd) : bool := negb (Nat.eqb (List.length (vparams c)) 0).
Definition has_c (c : cmd) : bool := negb (Nat.eqb (List.length (chans c)) 0).
Definition has_pc (c : cmd) : bool := has_p c || has_c c.
Definition tname (c : cmd) : str := pascal true (c_name c).
Definition fname (c : cmd) : str := camel (c_name c).

(* events: every top-level fn of every file; payload type string as event_parser.rs infers it *)
Fixpoint type_name (t : qty) : str :=
  match t with QRef u => type_name u | QPath _ n _ _ => n | QTuple _ => S_ "unknown" end.
(* the function-wide symbol table of event_parser.rs, with the provenance of every entry: the
   declared type of a parameter / typed let (only its last path segment is kept as the type string),
   or a name taken from an initialiser (struct literal, first segment of a path call) *)
Inductive prov := FromTy (t : qty) | FromName (n : str).
Definition prov_str (pr : prov) : str := match pr with FromTy t => type_name t | FromName n => n end.
Definition symtab := list (str * prov).
Fixpoint sy_lookup (k : str) (sy : symtab) : option prov :=
  match sy with [] => None | (n, pr) :: r => if str_eqb k n then Some pr else sy_lookup k r end.
Fixpoint infer_init (i : init) (sy : symtab) : option prov :=           (* infer_type_from_init *)
  match i with
  | IStruct n => Some (FromName n) | ICall h => Some (FromName h)
  | IVar w => sy_lookup w sy | IRef j => infer_init j sy | IOther => None end.
Record emit_rec := { er_name : str; er_str : str; er_prov : option prov; er_pl : payload }.
Definition emit_record (sy : symtab) (e : emit_site) : emit_rec :=
  let mk s pr := {| er_name := em_name e; er_str := s; er_prov := pr; er_pl := em_payload e |} in
  match em_payload e with
  | PVar n => match sy_lookup n sy with Some pr => mk (prov_str pr) (Some pr) | None => mk n None end   (* falls back to the NAME *)
  | PUnit => mk (S_ "()") None | PStr => mk (S_ "String") None | PInt => mk (S_ "i32") None | PBool => mk (S_ "bool") None
  | PStruct n => mk n (Some (FromName n)) | POther => mk (S_ "unknown") None end.
Definition recv_ok (r : str) : bool := mem r [S_ "app"; S_ "window"; S_ "webview"].
(* extract_local_binding runs before the statement is searched for emits; an initialiser that
   cannot be typed leaves the table as it is *)
Fixpoint walk (sy : symtab) (b : list stmt) : list emit_rec :=
  match b with
  | [] => []
  | SLet v i :: r => walk (match infer_init i sy with
                           | Some pr => if str_eqb (prov_str pr) (S_ "unknown") then sy else (v, pr) :: sy
                           | None => sy end) r
  | SLetTy v t :: r => walk ((v, FromTy t) :: sy) r
  | SEmit e :: r => (if recv_ok (em_recv e) then [emit_record sy e] else []) ++ walk sy r
  end.
Definition param_sy (ps : list (str * qty)) : symtab := fold_left (fun sy x => (fst x, FromTy (snd x)) :: sy) ps [].
Definition emit_recs (p : proj) : list emit_rec :=
  flat_map (fun it => match it with RFn _ _ ps _ b => walk (param_sy ps) b | _ => [] end) (pj_items p).
Definition events (p : proj) : list (str * str) := map (fun r => (er_name r, er_str r)) (emit_recs p).

(* generators/mod.rs create_event_contexts: one listener per distinct event name, first site wins *)
Fixpoint first_by_name (seen : list str) (l : list (str * str)) : list (str * str) :=
  match l with
  | [] => []
  | e :: r => if mem (fst e) seen then first_by_name seen r else e :: first_by_name (fst e :: seen) r
  end.
Definition levents (p : proj) : list (str * str) := first_by_name [] (events p).
(* template_context.rs event_name_to_function: every byte that is not an ASCII letter or digit
   becomes an underscore (a multi-byte character gives one underscore per character in the code and
   one per byte here: PascalCase drops them all, so the result is the same) *)
Definition is_alnum (c : ascii) : bool :=
  let n := nat_of_ascii c in (((48 <=? n) && (n <=? 57)) || ((65 <=? n) && (n <=? 90)) || ((97 <=? n) && (n <=? 122)))%nat.
Definition lname (ev : str) : str := L "on" ++ pascal true (map (fun c => if is_alnum c then c else "_"%char) ev).

(* definitions: the first serde-deriving item of that name; tuple structs give no StructInfo *)
Fixpoint info_in (n : str) (l : list ritem) : option (bool * list sfield) :=      (* is_enum, fields kept *)
  match l with
  | [] => None
  | RStruct m true named fs :: r => if str_eqb n m then (if named then Some (false, filter (fun f => negb (sf_skip f)) fs) else None) else info_in n r
  | REnum m true :: r => if str_eqb n m then Some (true, []) else info_in n r
  | _ :: r => info_in n r
  end.
Definition info (p : proj) (n : str) : option (bool * list sfield) := info_in n (pj_items p).
Definition has_info (p : proj) (n : str) : bool := match info p n with Some _ => true | None => false end.
Definition fields_of (p : proj) (n : str) : list sfield := match info p n with Some (_, fs) => fs | None => [] end.
Definition is_enum (p : proj) (n : str) : bool := match info p n with Some (b, _) => b | None => false end.

(* monotone closure: [n] rounds of adding the successors of everything seen *)
Fixpoint grow (step : str -> list str) (n : nat) (seen : list str) : list str :=
  match n with 0 => seen | S k => grow step k (seen ++ filter (fun x => negb (mem x seen)) (dedup (flat_map step seen))) end.

(* analyze_project: harvested names, then resolve_types_lazily *)
Definition harvest_roots (p : proj) : list str :=
  flat_map (fun c => flat_map (fun ch => extract_type_names (qtts (snd ch))) (chans c) ++
                     flat_map (fun x => extract_type_names (qtts (snd x))) (vparams c) ++
                     extract_type_names (ret_str c)) (cmds p) ++
  flat_map (fun e => extract_type_names (snd e)) (events p).
Definition hdeps (p : proj) (n : str) : list str :=
  filter (has_info p) (flat_map (fun f => extract_type_names (qtts (sf_ty f))) (fields_of p n)).
Definition discovered (p : proj) : list str :=
  grow (hdeps p) (List.length (pj_items p)) (dedup (filter (has_info p) (harvest_roots p))).

(* TypeCollector: names of TypeStructure::Custom leaves *)
Fixpoint cust_raw (t : tstruct) : list str :=
  match t with
  | TCustom n => [n] | TPrim _ => []
  | TArr u | TSet u | TOpt u | TRes u => cust_raw u
  | TMap k v => cust_raw k ++ cust_raw v
  | TTuple l => flat_map cust_raw l end.
Definition field_ts (f : sfield) : tstruct := pts (qtts (sf_ty f)).
Definition cmd_site_ts (c : cmd) : list tstruct :=
  map (fun x => pts (qtts (snd x))) (vparams c) ++ [pts (ret_str c)] ++ map (fun ch => pts (qtts (snd ch))) (chans c).
Definition sdeps (p : proj) (disc : list str) (n : str) : list str :=
  if mem n disc then filter (fun x => mem x disc) (flat_map (fun f => cust_raw (field_ts f)) (fields_of p n)) else [].
Definition used (p : proj) : list str :=
  let disc := discovered p in
  dedup (filter (fun x => mem x disc) (grow (sdeps p disc) (List.length (pj_items p)) (dedup (flat_map (fun c => flat_map cust_raw (cmd_site_ts c)) (cmds p)))) ++
         filter (fun x => mem x disc) (grow (sdeps p disc) (List.length (pj_items p)) (dedup (flat_map (fun e => cust_raw (pts (snd e))) (events p))))).

(* ---------------- rendered names ---------------- *)
Section Names.
  Variable maps : list (str * str).
  Definition mtext (n : str) : str := match assoc n maps with Some t => t | None => n end.
  Definition mapped (n : str) : bool := match assoc n maps with Some _ => true | None => false end.

  (* identifiers of the default visitor's text, in order *)
  Fixpoint bn (t : tstruct) : list str :=
    match t with
    | TPrim s => [s] | TCustom n => [mtext n]
    | TArr u | TSet u | TRes u => bn u
    | TOpt u => bn u ++ [S_ "null"]
    | TMap k v => S_ "Record" :: bn k ++ bn v
    | TTuple [] => [S_ "void"]
    | TTuple l => flat_map bn l end.
  (* a leaf whose text is not one identifier: the comma-splitting defects of parse_type_structure *)
  Fixpoint garbage (t : tstruct) : bool :=
    match t with
    | TPrim _ => false | TCustom n => negb (is_ts_identifier (mtext n))
    | TArr u | TSet u | TOpt u | TRes u => garbage u
    | TMap k v => garbage k || garbage v
    | TTuple l => existsb garbage l end.
  (* custom names that are not replaced by a mapping *)
  Fixpoint customs (t : tstruct) : list str :=
    match t with
    | TCustom n => if mapped n then [] else [n] | TPrim _ => []
    | TArr u | TSet u | TOpt u | TRes u => customs u
    | TMap k v => customs k ++ customs v
    | TTuple l => flat_map customs l end.

  Definition prims8 : list str := map L ["void"; "string"; "number"; "boolean"; "any"; "unknown"; "null"; "undefined"].
  Definition prims4 : list str := map L ["string"; "number"; "boolean"; "void"].
  Definition Q (n : str) : ref := Qual (S_ "types") n.
  Fixpoint leftmost_map (t : tstruct) : bool :=
    match t with TMap _ _ => true | TArr u | TSet u | TOpt u | TRes u => leftmost_map u | _ => false end.
  Definition leaf_refs (x : str) : list ref := if mem x prims8 then [Bare x] else [Q x].
  (* add_types_prefix (text of t), after the repair of the [] branch (it recurses on the element
     text); the option is kept for the callers, the result is always Some *)
  Fixpoint atp_refs (t : tstruct) : option (list ref) :=
    match t with
    | TRes u => atp_refs u
    | TPrim s => Some (leaf_refs s)
    | TCustom n => Some (leaf_refs (mtext n))
    | TTuple [] => Some [Bare (S_ "void")]
    | TTuple l => Some (map Bare (flat_map bn l))
    | TMap k v => Some (map Bare (S_ "Record" :: bn k ++ bn v))
    | TArr u | TSet u => atp_refs u
    | TOpt u => if leftmost_map u then Some (map Bare (bn u ++ [S_ "null"]))
                else option_map (fun l => l ++ [Bare (S_ "null")]) (atp_refs u)
    end.
  (* the prefixing is right when every custom name is qualified and nothing else is *)
  Definition atp_clean (t : tstruct) : bool :=
    match atp_refs t with
    | None => false
    | Some rs => forallb (fun r => match r with
                                   | Bare n => mem n builtins
                                   | Qual a n => str_eqb a (S_ "types") && mem n (customs t) end) rs
    end.

  (* Zod schema text (schema_builder.rs render_type / ZodVisitor::visit_custom): value names *)
  Fixpoint zn (t : tstruct) : list ref :=
    match t with
    | TPrim _ => [Bare (S_ "z")]
    | TCustom n => match assoc n maps with
                   | Some m => if mem m prims4 then [Bare (S_ "z")] else [Bare (S_ "z"); Bare m]
                   | None => [Bare (n ++ S_ "Schema")] end
    | TArr u | TSet u | TOpt u | TRes u => Bare (S_ "z") :: zn u
    | TMap k v => Bare (S_ "z") :: zn k ++ zn v
    | TTuple l => Bare (S_ "z") :: flat_map zn l end.
End Names.

(* default TypeVisitor on the structure, without mappings (text handed to add_types_prefix) *)
Fixpoint render7 (t : tstruct) : str :=
  match t with
  | TPrim s => s
  | TArr u | TSet u => render7 u ++ L "[]"
  | TMap k v => L "Record<" ++ render7 k ++ L ", " ++ render7 v ++ L ">"
  | TTuple [] => L "void"
  | TTuple l => L "[" ++ join (L ", ") (map render7 l) ++ L "]"
  | TOpt u => render7 u ++ L " | null"
  | TRes u => render7 u
  | TCustom n => n
  end.

(* base/templates.rs add_types_prefix on strings, after the repair (Pipeline.atp with the [] branch recursing) *)
Fixpoint atp2 (fuel : nat) (s : str) : str :=
  match fuel with 0 => s | S f =>
  if mem s prims8 then s else
  match strip_suffix (L "[]") s with
  | Some base => atp2 f base ++ L "[]"
  | None =>
    if starts (L "Record<") s || starts (L "Map<") s then s else
    match strip_suffix (L " | null") s with
    | Some base => atp2 f base ++ L " | null"
    | None =>
      match strip_suffix (L " | undefined") s with
      | Some base => atp2 f base ++ L " | undefined"
      | None =>
        if starts (L "[") s && ends_with "]"%char s then s
        else if starts (L "types.") s then s else L "types." ++ s
      end end end end.
Definition add_types_prefix2 (s : str) : str := atp2 (S (List.length s)) s.

(* ---------------- the four summaries ---------------- *)
Definition any_chan (p : proj) : bool := existsb has_c (cmds p).
Definition opt_l {A} (b : bool) (l : list A) : list A := if b then l else [].
Definition ret_ts (c : cmd) : tstruct := pts (ret_str c).
Definition ret_refs (p : proj) (c : cmd) : list ref := match atp_refs (pj_maps p) (ret_ts c) with Some l => l | None => [] end.
Definition ev_refs (p : proj) (e : str * str) : list ref := match atp_refs (pj_maps p) (pts (snd e)) with Some l => l | None => [] end.
Definition chan_refs (p : proj) (c : cmd) : list ref :=
  flat_map (fun ch => Bare (S_ "Channel") :: map Bare (bn (pj_maps p) (pts (qtts (snd ch))))) (chans c).
Definition B_ (s : string) : ref := Bare (L s).

Definition types_sum (p : proj) (zod : bool) : msum :=
  let m := pj_maps p in
  let us := used p in
  if zod then
    {| ms_exports := flat_map (fun n => [n ++ S_ "Schema"; n]) us ++
                     flat_map (fun c => opt_l (has_p c) [tname c ++ S_ "ParamsSchema"]) (cmds p) ++
                     flat_map (fun c => opt_l (has_pc c) [tname c ++ S_ "Params"]) (cmds p);
       ms_imports := S_ "z" :: opt_l (any_chan p) [S_ "Channel"];
       ms_star := []; ms_reexports := [];
       ms_refs := flat_map (fun n => B_ "z" :: flat_map (fun f => zn m (field_ts f)) (fields_of p n) ++ [B_ "z"; Bare (n ++ S_ "Schema")]) us ++
                  flat_map (fun c => opt_l (has_p c) (B_ "z" :: flat_map (fun x => zn m (pts (qtts (snd x)))) (vparams c))) (cmds p) ++
                  flat_map (fun c => opt_l (has_p c) [B_ "z"; Bare (tname c ++ S_ "ParamsSchema")] ++ chan_refs p c ++
                                     opt_l (has_c c && negb (has_p c)) [B_ "string"; B_ "unknown"]) (cmds p) |}
  else
    {| ms_exports := us ++ flat_map (fun c => opt_l (has_pc c) [tname c ++ S_ "Params"]) (cmds p);
       ms_imports := opt_l (any_chan p) [S_ "Channel"];
       ms_star := []; ms_reexports := [];
       ms_refs := flat_map (fun n => flat_map (fun f => map Bare (bn m (field_ts f))) (fields_of p n)) us ++
                  flat_map (fun c => opt_l (has_pc c)
                              (flat_map (fun x => map Bare (bn m (pts (qtts (snd x))))) (vparams c) ++ chan_refs p c ++ [B_ "string"; B_ "unknown"])) (cmds p) |}.

Definition commands_sum (p : proj) (zod : bool) : msum :=
  {| ms_exports := opt_l zod [S_ "CommandHooks"] ++ map fname (cmds p);
     ms_imports := S_ "invoke" :: opt_l (any_chan p) [S_ "Channel"] ++ opt_l zod [S_ "ZodError"] ++ [S_ "types"];
     ms_star := [(S_ "types", types_spec)]; ms_reexports := [];
     ms_refs := opt_l zod [B_ "ZodError"; B_ "void"; B_ "unknown"] ++
                flat_map (fun c => opt_l (has_pc c) [Qual (S_ "types") (tname c ++ S_ "Params")] ++
                                   opt_l zod [B_ "CommandHooks"] ++ [B_ "Promise"] ++ ret_refs p c ++
                                   opt_l (zod && has_p c) [Qual (S_ "types") (tname c ++ S_ "ParamsSchema"); B_ "ZodError"] ++
                                   [B_ "invoke"]) (cmds p) |}.

Definition events_sum (p : proj) : msum :=
  {| ms_exports := map (fun e => lname (fst e)) (levents p);
     ms_imports := [S_ "listen"; S_ "UnlistenFn"; S_ "Event"; S_ "types"];
     ms_star := [(S_ "types", types_spec)]; ms_reexports := [];
     ms_refs := flat_map (fun e => ev_refs p e ++ [B_ "void"; B_ "Promise"; B_ "UnlistenFn"; B_ "listen"]) (levents p) |}.

Definition has_events (p : proj) : bool := negb (Nat.eqb (List.length (events p)) 0).
Definition index_sum (p : proj) : msum :=
  {| ms_exports := []; ms_imports := []; ms_star := [];
     ms_reexports := [types_spec; commands_spec] ++ opt_l (has_events p) [events_spec]; ms_refs := [] |}.

Definition gen (p : proj) (zod : bool) : files :=
  {| f_types := Parsed (types_sum p zod); f_commands := Parsed (commands_sum p zod);
     f_events := if has_events p then Parsed (events_sum p) else Absent; f_index := Parsed (index_sum p) |}.

(* ---------------- where the set-level prediction does not apply: some emitted type is not a type ---------------- *)
Definition decl_site_ts (p : proj) : list tstruct :=      (* sites whose names go into declarations and schemas *)
  flat_map cmd_site_ts (cmds p) ++ flat_map (fun n => map field_ts (fields_of p n)) (used p).
Definition event_site_ts (p : proj) : list tstruct := map (fun e => pts (snd e)) (events p).
Definition all_site_ts (p : proj) : list tstruct := decl_site_ts p ++ event_site_ts p.
Definition prefixed_ts (p : proj) : list tstruct := map ret_ts (cmds p) ++ map (fun e => pts (snd e)) (levents p).
Definition broken (p : proj) : bool :=
  existsb (garbage (pj_maps p)) (all_site_ts p) ||
  existsb (fun t => match atp_refs (pj_maps p) t with None => true | Some _ => false end) (prefixed_ts p) ||
  existsb (fun e => negb (is_ts_identifier (lname (fst e)))) (events p).

(* ---------------- premises ---------------- *)
(* names of the Rust types a proj mentions: last segments of paths that are not std / tauri heads *)
Definition container_heads : list string := ["Option"; "Result"; "Vec"; "HashMap"; "BTreeMap"; "HashSet"; "BTreeSet"].
Definition is_std (n : str) : bool := (match prim_of n with Some _ => true | None => false end) || one_of n container_heads.
Fixpoint qnames (t : qty) : list str :=
  match t with
  | QPath _ n _ args => (if is_std n then [] else [n]) ++ flat_map qnames args
  | QRef u => qnames u
  | QTuple l => flat_map qnames l end.
Definition serde_fields (p : proj) : list sfield :=
  flat_map (fun it => match it with RStruct _ true true fs => filter (fun f => negb (sf_skip f)) fs | _ => [] end) (pj_items p).
Definition site_qtys (p : proj) : list qty :=
  flat_map (fun c => map snd (vparams c) ++ map snd (chans c) ++ match c_ret c with Some t => [t] | None => [] end) (cmds p) ++
  map sf_ty (serde_fields p) ++
  flat_map (fun r => match er_prov r with Some (FromTy t) => [t] | _ => [] end) (emit_recs p).
Definition payload_names (p : proj) : list str :=
  flat_map (fun r => match er_prov r with Some (FromName n) => [n] | _ => [] end) (emit_recs p).
(* the premise of the property: every named Rust type used is a serde struct/enum of the proj or mapped *)
Definition closed_world (p : proj) : bool :=
  forallb (fun n => has_info p n || mapped (pj_maps p) n) (flat_map qnames (site_qtys p) ++ payload_names p).

Definition type_names (p : proj) : list str :=
  flat_map (fun it => match it with RStruct n _ _ _ | REnum n _ => [n] | _ => [] end) (pj_items p).
(* well-formed input: one definition per type name, one command per name, mapping targets are
   the primitive names of the documented feature set, event names mangle to identifiers,
   a payload variable has a type in the symbol table when it is emitted (parameter, typed let,
   struct-literal or path-call initialiser; an initialiser that cannot be typed keeps the earlier entry) *)
Definition wf (p : proj) : bool :=
  negb (has_dup (type_names p)) && negb (has_dup (map c_name (cmds p))) &&
  forallb (fun m => mem (snd m) prims4) (pj_maps p) &&
  forallb (fun e => is_ts_identifier (lname (fst e))) (events p) &&
  forallb (fun r => match er_pl r with PVar _ => match er_prov r with Some _ => true | None => false end | POther => false | _ => true end) (emit_recs p).

(* ---------------- recorded defect classes ---------------- *)
(* (repaired, kept as a diagnostic only) a leaf that is not a name *)
Definition kf_garbage (p : proj) : bool := existsb (garbage (pj_maps p)) (all_site_ts p).
(* C02-2 add_types_prefix, on a return type or an event payload type *)
Definition kf_prefix (p : proj) : bool := existsb (fun t => negb (atp_clean (pj_maps p) t)) (prefixed_ts p).
(* C02-6 the payload variable's declared type has type arguments: only its head name is kept *)
Fixpoint generic_head (t : qty) : bool := match t with QRef u => generic_head u | QPath _ _ angle _ => angle | QTuple _ => false end.
Definition kf_event_head (p : proj) : bool :=
  existsb (fun r => match er_prov r with Some (FromTy t) => generic_head t | _ => false end) (emit_recs p).
(* C02-7 two distinct event names mangle to one listener identifier (a-b beside a_b) *)
Definition kf_dup_listener (p : proj) : bool := has_dup (map (fun e => lname (fst e)) (levents p)).
(* C02-8 generated names collide inside types.ts / commands.ts *)
Definition kf_collision (p : proj) (zod : bool) : bool :=
  has_dup (ms_exports (types_sum p zod)) || has_dup (ms_exports (commands_sum p zod)).

Definition kf_C02 (p : proj) (zod : bool) : bool :=
  kf_prefix p || kf_event_head p || kf_dup_listener p || kf_collision p zod.

(* every custom name a declaration or a prefixed site mentions is declared - for an event payload:
   or is one of the eight names add_types_prefix leaves alone (the fall-back unknown) - (decidable side condition
   of the model-level theorem; the full statement derives it from closed_world and the classes) *)
Definition refs_declared (p : proj) : bool :=
  forallb (fun t => forallb (fun n => mem n (used p)) (customs (pj_maps p) t)) (decl_site_ts p) &&
  forallb (fun t => forallb (fun n => mem n prims8 || mem n (used p)) (customs (pj_maps p) t)) (event_site_ts p).
