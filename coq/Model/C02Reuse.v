(* C02 reuse model: ONE CommandAnalyzer (and one generator) taken through several
   analyse + generate rounds (library API as long-lived objects). What HEAD accumulates
   (analysis/mod.rs analyze_project_with_verbose, resolve_types_lazily; ast_cache.rs
   parse_and_cache_all_files; dependency_graph.rs add_type_definition):
     ast_cache            path -> AST: a path on disk is (re)parsed and overwrites its entry, a path
                          that disappeared from disk keeps its entry (its commands and emits stay)
     type_definitions     name -> path, rebuilt from ALL cached files in sorted path order on every
                          analysis (the last file that has a serde item of that name wins)
     discovered_structs   name -> StructInfo, never cleared; resolve_types_lazily skips a name that is
                          already there (the FIRST definition is kept for ever and is not expanded again)
     discovered_events    extended by the events of all cached files on every analysis
   The generator takes the type mappings of the round's configuration only.
   A state is observed through a view: a proj (Model/C02Model.v) whose items are the accumulated
   struct definitions, the functions of earlier analyses demoted to non-commands (their emits
   stay, in order) and the functions of the latest analysis; the files of a round are
   gen (view state maps) zod. File paths are abstracted to their rank in the sorted PathBuf order
   of all paths of the history. Definitions only. *)
From Coq Require Import String Ascii.
From Coq Require Import List Arith Bool.
Require Import TT.Model.Str TT.Model.C07TypeParse TT.Model.C07Harvest TT.Model.Pipeline.
Require Import TT.Spec.C02Closed TT.Model.C02Model.
Import ListNotations.
Local Open Scope list_scope.

Definition sinfo : Type := (bool * list sfield)%type.
Record rinput := { ri_files : list (nat * list ritem); ri_maps : list (str * str) }.
Record astate := { st_cache : list (nat * list ritem);
                   st_structs : list (str * sinfo);
                   st_past : list ritem;
                   st_cur : list ritem }.
Definition st0 : astate := {| st_cache := []; st_structs := []; st_past := []; st_cur := [] |}.

(* AstCache: insert or overwrite, kept in path order *)
Fixpoint cache_put (k : nat) (v : list ritem) (c : list (nat * list ritem)) : list (nat * list ritem) :=
  match c with
  | [] => [(k, v)]
  | (j, w) :: r => if Nat.eqb k j then (k, v) :: r
                   else if Nat.ltb k j then (k, v) :: (j, w) :: r
                   else (j, w) :: cache_put k v r
  end.
Definition cache_merge (c : list (nat * list ritem)) (fs : list (nat * list ritem)) : list (nat * list ritem) :=
  fold_left (fun acc f => cache_put (fst f) (snd f) acc) fs c.
Definition eff (c : list (nat * list ritem)) : list ritem := flat_map snd c.

(* index_type_definitions over every cached file, in order: the last file with a serde item of that name *)
Definition indexes (n : str) (its : list ritem) : bool :=
  existsb (fun it => match it with
                     | RStruct m true _ _ => str_eqb n m
                     | REnum m true => str_eqb n m
                     | _ => false end) its.
Fixpoint def_file (n : str) (c : list (nat * list ritem)) (acc : list ritem) : list ritem :=
  match c with [] => acc | (_, its) :: r => def_file n r (if indexes n its then its else acc) end.
(* extract_type_from_ast in that file *)
Definition info_now (c : list (nat * list ritem)) (n : str) : option sinfo := info_in n (def_file n c []).

Definition known (ss : list (str * sinfo)) (n : str) : bool := existsb (fun e => str_eqb n (fst e)) ss.
Definition fresh_b (c : list (nat * list ritem)) (ss : list (str * sinfo)) (n : str) : bool :=
  match info_now c n with Some _ => negb (known ss n) | None => false end.
Definition deps_now (c : list (nat * list ritem)) (ss : list (str * sinfo)) (n : str) : list str :=
  filter (fresh_b c ss)
         (flat_map (fun f => extract_type_names (qtts (sf_ty f)))
                   (match info_now c n with Some (_, fs) => fs | None => [] end)).
(* resolve_types_lazily: names not yet discovered, reached from this analysis' roots through
   definitions that are read now *)
Definition newly (c : list (nat * list ritem)) (ss : list (str * sinfo)) (maps : list (str * str)) : list str :=
  grow (deps_now c ss) (List.length (eff c))
       (dedup (filter (fresh_b c ss) (harvest_roots {| pj_items := eff c; pj_maps := maps |}))).

Definition is_fn (it : ritem) : bool := match it with RFn _ _ _ _ _ => true | _ => false end.
Definition demote (it : ritem) : ritem := match it with RFn n _ ps r b => RFn n false ps r b | x => x end.

Definition step (st : astate) (ri : rinput) : astate :=
  let c := cache_merge (st_cache st) (ri_files ri) in
  let nw := newly c (st_structs st) (ri_maps ri) in
  {| st_cache := c;
     st_structs := st_structs st ++ flat_map (fun n => match info_now c n with Some i => [(n, i)] | None => [] end) nw;
     st_past := st_past st ++ map demote (st_cur st);
     st_cur := filter is_fn (eff c) |}.

Definition struct_item (e : str * sinfo) : ritem :=
  match e with
  | (n, (true, _)) => REnum n true
  | (n, (false, fs)) => RStruct n true true fs
  end.
Definition view_items (st : astate) : list ritem := map struct_item (st_structs st) ++ st_past st ++ st_cur st.
Definition view (st : astate) (maps : list (str * str)) : proj := {| pj_items := view_items st; pj_maps := maps |}.

(* the states after each round, with the round's input *)
Fixpoint run (st : astate) (h : list rinput) : list (astate * rinput) :=
  match h with [] => [] | r :: t => let st' := step st r in (st', r) :: run st' t end.
Definition reuse_view (sr : astate * rinput) : proj := view (fst sr) (ri_maps (snd sr)).
Definition reuse_files (sr : astate * rinput) (zod : bool) : files := gen (reuse_view sr) zod.

(* ---------------- names an item contributes to the closed-world premise ---------------- *)
Definition rec_names (r : emit_rec) : list str :=
  match er_prov r with Some (FromTy t) => qnames t | Some (FromName n) => [n] | None => [] end.
Definition cmd_names (c : cmd) : list str :=
  flat_map qnames (map snd (vparams c) ++ map snd (chans c) ++ match c_ret c with Some t => [t] | None => [] end).
Definition item_names (it : ritem) : list str :=
  match it with
  | RStruct _ true true fs => flat_map (fun f => qnames (sf_ty f)) (filter (fun f => negb (sf_skip f)) fs)
  | RFn n c ps ret b =>
      (if c then cmd_names {| c_name := n; c_params := ps; c_ret := ret |} else []) ++
      flat_map rec_names (walk (param_sy ps) b)
  | _ => []
  end.

(* ---------------- the recorded class C02-9 ---------------- *)
(* a later round's configuration lacks a type mapping key that an earlier round had *)
Fixpoint maps_dropped (seen : list str) (h : list rinput) : bool :=
  match h with
  | [] => false
  | r :: t => existsb (fun k => negb (mapped (ri_maps r) k)) seen || maps_dropped (seen ++ map fst (ri_maps r)) t
  end.
Definition kf_reuse_maps (h : list rinput) : bool := maps_dropped [] h.

(* what this round adds is closed over what is known after it or mapped by its configuration:
   the definitions read now, the functions of the latest analysis (decidable; implied for a
   closed-world round by the harvest theorems, see notes) *)
Definition fresh_items (prev st : astate) : list ritem :=
  map struct_item (skipn (List.length (st_structs prev)) (st_structs st)) ++ st_cur st.
Definition fresh_ok (prev st : astate) (maps : list (str * str)) : bool :=
  forallb (fun it => forallb (fun n => known (st_structs st) n || mapped maps n) (item_names it)) (fresh_items prev st).
Fixpoint rounds_fresh_ok (st : astate) (h : list rinput) : bool :=
  match h with
  | [] => true
  | r :: t => let st' := step st r in fresh_ok st st' (ri_maps r) && rounds_fresh_ok st' t
  end.
(* per-round premises on the view (the same premises as C02_closed, minus closed_world which is derived) *)
Definition round_prem (zod : bool) (sr : astate * rinput) : bool :=
  wf (reuse_view sr) && negb (kf_C02 (reuse_view sr) zod).
