From Coq Require Import List Arith Bool.
Require Import TT.Model.Base.
Import ListNotations.

Section Kahn.
Context {node : Type} {ED : EqDec node}.

Definition dep := (node * node)%type.           (* (from, to) : from uses to *)
Definition eqb (a b : node) : bool := if eq_dec a b then true else false.
Definition memb (x : node) (l : list node) : bool := if in_dec eq_dec x l then true else false.

Definition indeg (deps : list dep) (n : node) : nat := length (filter (fun d => eqb (fst d) n) deps).
Definition adj (deps : list dep) (n : node) : list node := map fst (filter (fun d => eqb (snd d) n) deps).

Definition upd (f : node -> nat) (a : node) (v : nat) : node -> nat := fun x => if eq_dec x a then v else f x.

Definition dec_step (st : (node -> nat) * list node) (a : node) : (node -> nat) * list node :=
  let '(dg, q) := st in
  let d := dg a - 1 in
  (upd dg a d, if d =? 0 then q ++ [a] else q).

Fixpoint loop (fuel : nat) (deps : list dep) (q : list node) (dg : node -> nat) (res : list node) : option (list node) :=
  match fuel with
  | 0 => None
  | S f =>
    match q with
    | [] => Some res
    | n :: q1 =>
        let '(dg', q') := fold_left dec_step (adj deps n) (dg, q1) in
        loop f deps q' dg' (res ++ [n])
    end
  end.

Inductive kres := Ok (l : list node) | Cycle (remaining : list node) | OutOfFuel.

(* [order] is the iteration order of the in-degree map: any duplicate-free enumeration of the nodes *)
Definition kahn (order : list node) (deps : list dep) : kres :=
  let q0 := filter (fun n => indeg deps n =? 0) order in
  match loop (S (length order)) deps q0 (indeg deps) [] with
  | Some res => if length res =? length order then Ok res
                else Cycle (filter (fun n => negb (memb n res)) order)
  | None => OutOfFuel
  end.

End Kahn.
Arguments dep : clear implicits.
Arguments kres : clear implicits.
