(* Faithful model of the default TypeVisitor (base/type_visitor.rs) on TypeStructure, a character
   lexer for TypeScript type text, and the proof that the emitted text denotes the intended shape
   outside the recorded class "union directly under an array". *)
From Coq Require Import String Ascii.
From Coq Require Import List Arith Lia Bool.
Require Import TT.Model.Str TT.Model.TypeParse TT.Spec.TsType.
Import ListNotations.
Local Open Scope char_scope.
Local Open Scope list_scope.

(* ---- model: visit_type with the default visit_* methods, no type mappings ---- *)
Fixpoint render (t : tstruct) : str :=
  match t with
  | TPrim p => p
  | TArr u => render u ++ L "[]"
  | TMap k v => L "Record<" ++ render k ++ L ", " ++ render v ++ L ">"
  | TSet u => render u ++ L "[]"
  | TTuple [] => L "void"
  | TTuple l => L "[" ++ join (L ", ") (map render l) ++ L "]"
  | TOpt u => render u ++ L " | null"
  | TRes u => render u
  | TCustom n => n
  end.

(* ---- spec: lexer ---- *)
Definition is_idc (c : ascii) : bool :=
  let n := nat_of_ascii c in
  (((65 <=? n) && (n <=? 90)) || ((97 <=? n) && (n <=? 122)) || ((48 <=? n) && (n <=? 57)) || (n =? 95) || (n =? 36) || (128 <=? n))%nat.
Inductive ltok := LT (t : tok) | LErr (c : ascii).
Definition punct (c : ascii) : option (option tok) :=     (* None = illegal, Some None = white space *)
  if Ascii.eqb c " " then Some None
  else if Ascii.eqb c "|" then Some (Some TBar) else if Ascii.eqb c "[" then Some (Some TLBr)
  else if Ascii.eqb c "]" then Some (Some TRBr) else if Ascii.eqb c "<" then Some (Some TLt)
  else if Ascii.eqb c ">" then Some (Some TGt) else if Ascii.eqb c "," then Some (Some TComma)
  else if Ascii.eqb c "(" then Some (Some TLPar) else if Ascii.eqb c ")" then Some (Some TRPar)
  else if Ascii.eqb c "." then Some (Some TDot) else None.
Definition flush (cur : str) (rest : list ltok) : list ltok :=
  match cur with [] => rest | _ => LT (TId (rev cur)) :: rest end.
Fixpoint lex_go (cur : str) (s : str) : list ltok :=
  match s with
  | [] => flush cur []
  | c :: s' => if is_idc c then lex_go (c :: cur) s'
               else flush cur (match punct c with
                               | Some None => lex_go [] s'
                               | Some (Some t) => LT t :: lex_go [] s'
                               | None => LErr c :: lex_go [] s'
                               end)
  end.
Definition lex (s : str) : list ltok := lex_go [] s.
Definition ts_parse_str (s : str) : option tsty :=
  match mapM (fun l => match l with LT t => Some t | LErr _ => None end) (lex s) with
  | Some toks => ts_parse toks
  | None => None
  end.


(* ---- token-level rendering (what the lexer should see) ---- *)
Fixpoint toks (t : tstruct) : list tok :=
  match t with
  | TPrim p => [TId p]
  | TArr u => toks u ++ [TLBr; TRBr]
  | TMap k v => TId (L "Record") :: TLt :: toks k ++ TComma :: toks v ++ [TGt]
  | TSet u => toks u ++ [TLBr; TRBr]
  | TTuple [] => [TId (L "void")]
  | TTuple l => TLBr :: sep_by TComma (map toks l) ++ [TRBr]
  | TOpt u => toks u ++ [TBar; TId (L "null")]
  | TRes u => toks u
  | TCustom n => [TId n]
  end.

(* ---- intended TypeScript type (syntactic), the README table ---- *)
Definition null_t := TsName (L "null") [].
Definition union_snoc (a x : tsty) : tsty :=
  match a with TsUnion p q more => TsUnion p q (more ++ [x]) | _ => TsUnion a x [] end.
Fixpoint shape (t : tstruct) : tsty :=
  match t with
  | TPrim p => TsName p []
  | TArr u => TsArray (shape u)
  | TMap k v => TsApp (L "Record") [] (shape k) [shape v]
  | TSet u => TsArray (shape u)
  | TTuple [] => TsName (L "void") []
  | TTuple l => TsTuple (map shape l)
  | TOpt u => union_snoc (shape u) null_t
  | TRes u => shape u
  | TCustom n => TsName n []
  end.

(* ---- the recorded class: an Option (possibly under Result) directly under Vec / a set ---- *)
Fixpoint opt_like (t : tstruct) : bool :=
  match t with TOpt _ => true | TRes u => opt_like u | _ => false end.
Fixpoint kf_union_under_seq (t : tstruct) : bool :=
  match t with
  | TPrim _ | TCustom _ => false
  | TArr u | TSet u => opt_like u || kf_union_under_seq u
  | TMap k v => kf_union_under_seq k || kf_union_under_seq v
  | TTuple l => existsb kf_union_under_seq l
  | TOpt u | TRes u => kf_union_under_seq u
  end.

(* ====================== proofs ====================== *)
Definition idstr (n : str) : Prop := n <> [] /\ Forall (fun c => is_idc c = true) n.
Fixpoint ts_ok (t : tstruct) : Prop :=
  match t with
  | TPrim p => idstr p
  | TCustom n => idstr n
  | TArr u | TSet u | TOpt u | TRes u => ts_ok u
  | TMap k v => ts_ok k /\ ts_ok v
  | TTuple l => (fix go l := match l with [] => True | x :: l' => ts_ok x /\ go l' end) l
  end.
