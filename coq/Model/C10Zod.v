(* C10 model: the two families of renderers side by side, faithful to the code (defects included).
   - plain renderer: base/type_visitor.rs default visit_* with TypeScriptVisitor (type mappings);
   - ZodVisitor::visit_type_for_interface (zod/type_visitor.rs, a second transcription of the same table);
   - ZodVisitor::visit_type (zod/type_visitor.rs: .nullable(), sets as arrays, Result as its Ok type);
   - ZodSchemaBuilder::render_type / build_schema / build_param_schema (zod/schema_builder.rs) with
     validator = None (validator chains are refinements; C11 owns them).
   Each renderer exists at two levels: the string the code returns, and the syntax tree the
   specification parser (TT.Spec.TsModule) reads from that string (direct denotation).  The
   templates that place these strings into types.ts are modelled at the syntax-tree level.
   Definitions only. *)
From Coq Require Import String Ascii.
From Coq Require Import List Arith Bool.
Require Import TT.Model.Str TT.Model.TypeParse TT.Spec.TsLex TT.Spec.TsModule.
Import ListNotations.
Local Open Scope list_scope.

Definition mapping := list (str * str).          (* config.type_mappings: Rust name -> TypeScript text *)
Fixpoint lookup (m : mapping) (n : str) : option str :=
  match m with [] => None | (k, v) :: r => if str_eqb k n then Some v else lookup r n end.

(* ------------------------------------------------------------------ strings *)
(* base/type_visitor.rs:11-90 with ts/type_visitor.rs visit_primitive *)
Fixpoint plain (m : mapping) (t : tstruct) : str :=
  match t with
  | TPrim p => p
  | TArr u => plain m u ++ L "[]"
  | TMap k v => L "Record<" ++ plain m k ++ L ", " ++ plain m v ++ L ">"
  | TSet u => plain m u ++ L "[]"
  | TTuple [] => L "void"
  | TTuple l => L "[" ++ join (L ", ") (map (plain m) l) ++ L "]"
  | TOpt u => plain m u ++ L " | null"
  | TRes u => plain m u
  | TCustom n => match lookup m n with Some x => x | None => n end
  end.

(* zod/type_visitor.rs:108-156 visit_type_for_interface (return types and channel message types in Zod mode) *)
Fixpoint ziface (m : mapping) (t : tstruct) : str :=
  match t with
  | TPrim p => p
  | TArr u => ziface m u ++ L "[]"
  | TMap k v => L "Record<" ++ ziface m k ++ L ", " ++ ziface m v ++ L ">"
  | TSet u => ziface m u ++ L "[]"
  | TTuple [] => L "void"
  | TTuple l => L "[" ++ join (L ", ") (map (ziface m) l) ++ L "]"
  | TOpt u => ziface m u ++ L " | null"
  | TRes u => ziface m u
  | TCustom n => match lookup m n with Some x => x | None => n end
  end.

(* zod/type_visitor.rs:83-105 visit_custom *)
Definition zcustom (m : mapping) (n : str) : str :=
  match lookup m n with
  | Some x => if str_eqb x (L "string") then L "z.string()"
              else if str_eqb x (L "number") then L "z.number()"
              else if str_eqb x (L "boolean") then L "z.boolean()"
              else if str_eqb x (L "void") then L "z.void()"
              else L "z.custom<" ++ x ++ L ">((val) => true)"
  | None => n ++ L "Schema"
  end.

(* zod/type_visitor.rs:32-81 visit_type *)
Fixpoint zvisit (m : mapping) (t : tstruct) : str :=
  match t with
  | TPrim p => if str_eqb p (L "string") then L "z.string()"
               else if str_eqb p (L "number") then L "z.number()"
               else if str_eqb p (L "boolean") then L "z.boolean()"
               else if str_eqb p (L "void") then L "z.void()"
               else L "z.unknown() /* Unexpected: " ++ p ++ L " */"
  | TArr u => L "z.array(" ++ zvisit m u ++ L ")"
  | TMap k v => L "z.record(" ++ zvisit m k ++ L ", " ++ zvisit m v ++ L ")"
  | TSet u => L "z.array(" ++ zvisit m u ++ L ")"
  | TTuple [] => L "z.void()"
  | TTuple l => L "z.tuple([" ++ join (L ", ") (map (zvisit m) l) ++ L "])"
  | TOpt u => zvisit m u ++ L ".nullable()"
  | TRes u => zvisit m u
  | TCustom n => zcustom m n
  end.

(* zod/schema_builder.rs:32-115 render_type / render_primitive with validator = None *)
Fixpoint zbuild (m : mapping) (t : tstruct) (is_key : bool) : str :=
  match t with
  | TOpt u => zbuild m u is_key ++ L ".optional()"
  | TPrim p =>
      if str_eqb p (L "string") then L "z.string()"
      else if str_eqb p (L "number") then (if is_key then L "z.number()" else L "z.coerce.number()")
      else if str_eqb p (L "boolean") then L "z.coerce.boolean()"
      else if str_eqb p (L "void") then L "z.void()"
      else L "z.unknown() /* Unknown primitive: " ++ p ++ L " */"
  | TArr u => L "z.array(" ++ zbuild m u false ++ L ")"
  | TMap k v => L "z.record(" ++ zbuild m k true ++ L ", " ++ zbuild m v false ++ L ")"
  | TSet u => L "z.set(" ++ zbuild m u false ++ L ")"
  | TTuple [] => L "z.void()"
  | TTuple l => L "z.tuple([" ++ join (L ", ") (map (fun x => zbuild m x false) l) ++ L "])"
  | TRes u => L "z.union([" ++ zbuild m u false ++ L ", z.object({ error: z.string() })])"
  | TCustom n => zcustom m n
  end.
Definition build_schema (m : mapping) (t : tstruct) : str := zbuild m t false.        (* validator None *)
Definition build_param_schema (m : mapping) (t : tstruct) : str := zbuild m t false.

(* ------------------------------------------------------------------ syntax trees *)
Definition null_ty : ty := TyRef [L "null"] [].
Fixpoint map_last {A} (f : A -> A) (l : list A) : list A :=
  match l with [] => [] | [x] => [f x] | x :: r => x :: map_last f r end.
(* text followed by the array suffix: the suffix binds to the last alternative of a union *)
Definition arr_of (t : ty) : ty := match t with TyUnion l => TyUnion (map_last TyArr l) | _ => TyArr t end.
(* text followed by the null alternative *)
Definition opt_of (t : ty) : ty := match t with TyUnion l => TyUnion (l ++ [null_ty]) | _ => TyUnion [t; null_ty] end.

(* the tree of a mapping target: the README maps Rust types "to TypeScript types", so a target is any
   type text (unknown, number[], Date, Record<string, string>, a union ...); the renderers paste it verbatim *)
Definition target_ty (x : str) : ty :=
  let l := lex_module x in
  if has_err l then TyRef [x] [] else match ptype l with Some (t, []) => t | _ => TyRef [x] [] end.
Definition custom_ty (m : mapping) (n : str) : ty :=
  match lookup m n with Some x => target_ty x | None => TyRef [n] [] end.

Fixpoint ts_ty_of (m : mapping) (t : tstruct) : ty :=
  match t with
  | TPrim p => TyRef [p] []
  | TArr u => arr_of (ts_ty_of m u)
  | TMap k v => TyRef [L "Record"] [ts_ty_of m k; ts_ty_of m v]
  | TSet u => arr_of (ts_ty_of m u)
  | TTuple [] => TyRef [L "void"] []
  | TTuple l => TyTuple (map (ts_ty_of m) l)
  | TOpt u => opt_of (ts_ty_of m u)
  | TRes u => ts_ty_of m u
  | TCustom n => custom_ty m n
  end.

Definition zid : ex := EId (L "z").
Definition zcall (name : string) (args : list ex) : ex := ECall (EMember zid (L name) false) [] args.
Definition zcoerce (name : string) : ex := ECall (EMember (EMember zid (L "coerce") false) (L name) false) [] [].
Definition link (e : ex) (name : string) : ex := ECall (EMember e (L name) false) [] [].

Definition zcustom_ex (m : mapping) (n : str) : ex :=
  match lookup m n with
  | Some x => if str_eqb x (L "string") then zcall "string" []
              else if str_eqb x (L "number") then zcall "number" []
              else if str_eqb x (L "boolean") then zcall "boolean" []
              else if str_eqb x (L "void") then zcall "void" []
              else ECall (EMember zid (L "custom") false) [target_ty x] [EArrow [L "val"] (EId (L "true"))]
  | None => EId (n ++ L "Schema")
  end.

Fixpoint zvisit_ex (m : mapping) (t : tstruct) : ex :=
  match t with
  | TPrim p => if str_eqb p (L "string") then zcall "string" []
               else if str_eqb p (L "number") then zcall "number" []
               else if str_eqb p (L "boolean") then zcall "boolean" []
               else if str_eqb p (L "void") then zcall "void" []
               else zcall "unknown" []
  | TArr u => zcall "array" [zvisit_ex m u]
  | TMap k v => zcall "record" [zvisit_ex m k; zvisit_ex m v]
  | TSet u => zcall "array" [zvisit_ex m u]
  | TTuple [] => zcall "void" []
  | TTuple l => zcall "tuple" [EArr (map (zvisit_ex m) l)]
  | TOpt u => link (zvisit_ex m u) "nullable"
  | TRes u => zvisit_ex m u
  | TCustom n => zcustom_ex m n
  end.

Definition error_obj : ex := zcall "object" [EObj [(Some (KeyId (L "error")), zcall "string" [])]].
Fixpoint zex_of (m : mapping) (t : tstruct) (is_key : bool) : ex :=
  match t with
  | TOpt u => link (zex_of m u is_key) "optional"
  | TPrim p =>
      if str_eqb p (L "string") then zcall "string" []
      else if str_eqb p (L "number") then (if is_key then zcall "number" [] else zcoerce "number")
      else if str_eqb p (L "boolean") then zcoerce "boolean"
      else if str_eqb p (L "void") then zcall "void" []
      else zcall "unknown" []
  | TArr u => zcall "array" [zex_of m u false]
  | TMap k v => zcall "record" [zex_of m k true; zex_of m v false]
  | TSet u => zcall "set" [zex_of m u false]
  | TTuple [] => zcall "void" []
  | TTuple l => zcall "tuple" [EArr (map (fun x => zex_of m x false) l)]
  | TRes u => zcall "union" [EArr [zex_of m u false; error_obj]]
  | TCustom n => zcustom_ex m n
  end.

(* ------------------------------------------------------------------ items of types.ts *)
(* the analysis result both generators start from (field / parameter names are the serialised
   names; [opt] is FieldInfo/ParameterInfo.is_optional: the written type is Option<..>) *)
Record member := { m_key : str; m_opt : bool; m_ty : tstruct }.
Record sdef := { s_name : str; s_fields : list member }.
Record edef := { e_name : str; e_variants : list str }.             (* serialised variant names *)
Record cdef := { c_tname : str; c_params : list member; c_chans : list (str * tstruct) }.
Inductive tdef := DStruct (s : sdef) | DEnum (e : edef).
Record proj := { p_types : list tdef; p_cmds : list cdef; p_map : mapping }.

(* escape_js (base/templates.rs) = escape_for_js (zod/filters.rs): backslash, double quote, newline,
   carriage return, tab; the replace chain starts with the backslash, so one pass over the bytes is the
   same function. Used for enum literals in both modes and inside quoted keys. *)
Definition esc_js (s : str) : str :=
  flat_map (fun c : ascii =>
    let n := nat_of_ascii c in
    if Nat.eqb n 92 then [c; c]
    else if Nat.eqb n 34 then [ascii_of_nat 92; c]
    else if Nat.eqb n 10 then [ascii_of_nat 92; ascii_of_nat 110]
    else if Nat.eqb n 13 then [ascii_of_nat 92; ascii_of_nat 114]
    else if Nat.eqb n 9 then [ascii_of_nat 92; ascii_of_nat 116]
    else [c]) s.
(* base/templates.rs is_identifier_name / ts_key filter: an identifier name stays bare, anything else
   becomes a double-quoted escaped literal (the parser keeps the raw body of the literal).
   Bytes above 127 are taken as letters (char::is_alphabetic on the non-ASCII characters met in names). *)
Definition is_ident_name (k : str) : bool :=
  match k with c :: r => is_id_start c && forallb is_id_char r | [] => false end.
Definition mk_key (k : str) : key := if is_ident_name k then KeyId k else KeyStr (esc_js k).

Definition params_name (c : cdef) : str := c_tname c ++ L "Params".
Definition schema_name (n : str) : str := n ++ L "Schema".
Definition index_sig : str * ty * ty := (L "key", TyRef [L "string"] [], TyRef [L "unknown"] []).
Definition chan_member (m : mapping) (tsf : mapping -> tstruct -> ty) (c : str * tstruct) : key * bool * ty :=
  (mk_key (fst c), false, TyRef [L "Channel"] [tsf m (snd c)]).
Definition plain_member (m : mapping) (f : member) : key * bool * ty := (mk_key (m_key f), m_opt f, ts_ty_of m (m_ty f)).

(* ts/templates/partials/interface.tera, enum.tera, param_interface.ts.tera *)
Definition plain_type_item (m : mapping) (d : tdef) : item :=
  match d with
  | DStruct s => IInterface (s_name s) [] None (map (plain_member m) (s_fields s)) []
  | DEnum e => ITypeAlias (e_name e) []
                 (match e_variants e with [v] => TyLit (esc_js v) | vs => TyUnion (map (fun v => TyLit (esc_js v)) vs) end)
  end.
Definition plain_param_items (m : mapping) (c : cdef) : list item :=
  match c_params c, c_chans c with
  | [], [] => []
  | ps, cs => [IInterface (params_name c) [] None (map (plain_member m) ps ++ map (chan_member m ts_ty_of) cs) [index_sig]]
  end.
Definition plain_items (p : proj) : list item :=
  map (plain_type_item (p_map p)) (p_types p) ++ flat_map (plain_param_items (p_map p)) (p_cmds p).

(* zod/templates/partials/schema.ts.tera, zod/generator.rs generate_enum_schema (since the repair
   C10-5-zod-enum-alias the constant is followed by the inferred type alias, as for structs),
   param_schemas.ts.tera (isOptional adds a second .optional()), type_aliases.ts.tera *)
Definition infer_of (n : str) : ty := TyRef [L "z"; L "infer"] [TyTypeof [schema_name n]].
Definition zod_field (m : mapping) (f : member) : option key * ex := (Some (mk_key (m_key f)), zex_of m (m_ty f) false).
Definition zod_param (m : mapping) (f : member) : option key * ex :=
  (Some (mk_key (m_key f)), if m_opt f then link (zex_of m (m_ty f) false) "optional" else zex_of m (m_ty f) false).
Definition zod_type_items (m : mapping) (d : tdef) : list item :=
  match d with
  | DStruct s => [IConst (schema_name (s_name s)) (zcall "object" [EObj (map (zod_field m) (s_fields s))]);
                  ITypeAlias (s_name s) [] (infer_of (s_name s))]
  | DEnum e => [IConst (schema_name (e_name e)) (zcall "enum" [EArr (map (fun v => EStr """"%char (esc_js v)) (e_variants e))]);
                ITypeAlias (e_name e) [] (infer_of (e_name e))]
  end.
Definition zod_param_schema (m : mapping) (c : cdef) : list item :=
  match c_params c with
  | [] => []
  | ps => [IConst (schema_name (params_name c)) (zcall "object" [EObj (map (zod_param m) ps)])]
  end.
(* channel message types go through visit_type_for_interface, whose tree is ts_ty_of as well *)
Definition zod_alias (m : mapping) (c : cdef) : list item :=
  match c_params c, c_chans c with
  | [], [] => []
  | [], cs => [IInterface (params_name c) [] None (map (chan_member m ts_ty_of) cs) [index_sig]]
  | _, [] => [ITypeAlias (params_name c) [] (infer_of (params_name c))]
  | _, cs => [IInterface (params_name c) [] (Some (infer_of (params_name c))) (map (chan_member m ts_ty_of) cs) []]
  end.
Definition zod_items (p : proj) : list item :=
  flat_map (zod_type_items (p_map p)) (p_types p) ++ flat_map (zod_param_schema (p_map p)) (p_cmds p) ++
  flat_map (zod_alias (p_map p)) (p_cmds p).

(* ------------------------------------------------------------------ Rust type -> TypeStructure *)
(* what TypeResolver::parse_type_structure reads from the printed type since the repair
   C05-2-3-top-level-commas (Result, tuples and maps are split at top-level commas only): the
   structure of the syntax tree. Checked against the real resolver / generators on every case. *)
Definition is_nm (n : str) (s : string) : bool := str_eqb n (L s).
Fixpoint structure_of (t : rty) : tstruct :=
  match t with
  | RRef t => structure_of t
  | RTuple [] => TPrim (L "void")
  | RTuple l => TTuple (map structure_of l)
  | RPath n [] => match prim_of n with Some p => TPrim p | None => TCustom n end
  | RPath n (a :: rest) =>
      if is_nm n "Option" then match rest with [] => TOpt (structure_of a) | _ => TCustom (tts t) end
      else if is_nm n "Result" then TRes (structure_of a)
      else if is_nm n "Vec" then match rest with [] => TArr (structure_of a) | _ => TCustom (tts t) end
      else if is_nm n "HashMap" || is_nm n "BTreeMap" then
             match rest with [v] => TMap (structure_of a) (structure_of v) | _ => TCustom (tts t) end
      else if is_nm n "HashSet" || is_nm n "BTreeSet" then
             match rest with [] => TSet (structure_of a) | _ => TCustom (tts t) end
      else TCustom (tts t)
  end.

(* ------------------------------------------------------------------ classes of recorded defects *)
Fixpoint has_set_t (t : tstruct) : bool :=
  match t with
  | TSet _ => true
  | TPrim _ | TCustom _ => false
  | TArr u | TOpt u | TRes u => has_set_t u
  | TMap k v => has_set_t k || has_set_t v
  | TTuple l => existsb has_set_t l
  end.
Fixpoint has_res_t (t : tstruct) : bool :=
  match t with
  | TRes _ => true
  | TPrim _ | TCustom _ => false
  | TArr u | TOpt u | TSet u => has_res_t u
  | TMap k v => has_res_t k || has_res_t v
  | TTuple l => existsb has_res_t l
  end.
Fixpoint has_opt_t (t : tstruct) : bool :=
  match t with
  | TOpt _ => true
  | TPrim _ | TCustom _ => false
  | TArr u | TRes u | TSet u => has_opt_t u
  | TMap k v => has_opt_t k || has_opt_t v
  | TTuple l => existsb has_opt_t l
  end.
(* an Option (possibly under Result) directly under Vec / a set: prints  T | null[]  (same class as C05) *)
Fixpoint opt_like (t : tstruct) : bool :=
  match t with TOpt _ => true | TRes u => opt_like u | _ => false end.
Fixpoint union_under_seq (t : tstruct) : bool :=
  match t with
  | TPrim _ | TCustom _ => false
  | TArr u | TSet u => opt_like u || union_under_seq u
  | TMap k v => union_under_seq k || union_under_seq v
  | TTuple l => existsb union_under_seq l
  | TOpt u | TRes u => union_under_seq u
  end.

(* ------------------------------------------------------------------ the documented feature set *)
Local Open Scope string_scope.
Definition prim_names : list string := ["string"; "number"; "boolean"; "void"].
Definition taken_names : list string :=
  ["string"; "number"; "boolean"; "void"; "null"; "undefined"; "unknown"; "any"; "never"; "Record"; "Array"; "z"; "types"; "Channel"; "typeof"].
Local Close Scope string_scope.
Definition in_names (n : str) (l : list string) : bool := existsb (fun x => str_eqb n (L x)) l.
Definition name_ok (n : str) : bool :=
  match n with
  | c :: r => is_id_start c && forallb is_id_char r && negb (in_names n taken_names)
  | [] => false end.
Definition map_ok (m : mapping) : bool :=
  forallb (fun kv => in_names (snd kv) ["string"; "number"; "boolean"]%string) m.
(* run-time domain of the correspondence check: any target that is a type text *)
Definition map_wide (m : mapping) : bool :=
  forallb (fun kv => let l := lex_module (snd kv) in negb (has_err l) && match ptype l with Some (_, []) => true | _ => false end) m.
Definition key_ok (t : tstruct) : bool :=
  match t with TPrim p => in_names p ["string"; "number"]%string | _ => false end.
(* run-time domain of the correspondence check: map keys may also be project types (enums) or mapped
   names; the theorems keep [dom] (string / number keys) *)
Definition key_ok_w (t : tstruct) : bool :=
  key_ok t || match t with TCustom n => name_ok n | _ => false end.
Fixpoint dom_w (t : tstruct) : bool :=
  match t with
  | TPrim p => in_names p prim_names
  | TCustom n => name_ok n
  | TArr u | TSet u | TOpt u | TRes u => dom_w u
  | TMap k v => key_ok_w k && dom_w v
  | TTuple l => forallb dom_w l
  end.
Fixpoint dom (t : tstruct) : bool :=
  match t with
  | TPrim p => in_names p prim_names
  | TCustom n => name_ok n
  | TArr u | TSet u | TOpt u | TRes u => dom u
  | TMap k v => key_ok k && dom v
  | TTuple l => forallb dom l
  end.
