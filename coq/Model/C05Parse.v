(* C05: faithful model of TypeResolver::parse_type_structure AFTER the repair
   C05-2-3-top-level-commas (src/analysis/type_resolver.rs: find_top_level_comma, split_top_level,
   used by extract_result_ok_type, parse_two_type_params and extract_tuple_types).
   Everything else is the transcription of Model/TypeParse.v (same order of tests); that file keeps
   the pre-repair parser for the developments that still import it. No proofs here. *)
From Coq Require Import String Ascii ZArith.
From Coq Require Import List Arith Bool.
Require Import TT.Model.Str TT.Model.TypeParse.
Import ListNotations.
Local Open Scope char_scope.
Local Open Scope list_scope.

(* find_top_level_comma: depth is a signed i32 that goes up at < ( [ and down at > ) ]; the first
   comma seen at depth 0 wins. Returned as (text before, text after). *)
Definition opener (c : ascii) : bool := Ascii.eqb c "<" || Ascii.eqb c "(" || Ascii.eqb c "[".
Definition closer (c : ascii) : bool := Ascii.eqb c ">" || Ascii.eqb c ")" || Ascii.eqb c "]".
Fixpoint top2_go (d : Z) (pre : str) (s : str) : option (str * str) :=
  match s with
  | [] => None
  | b :: s' =>
      if opener b then top2_go (d + 1) (b :: pre) s'
      else if closer b then top2_go (d - 1) (b :: pre) s'
      else if Ascii.eqb b "," && (d =? 0)%Z then Some (rev pre, s')
      else top2_go d (b :: pre) s'
  end.
Definition top_comma (s : str) : option (str * str) := top2_go 0 [] s.

(* split_top_level: while let Some(pos) = find_top_level_comma(rest) { push; rest = after } push(rest) *)
Fixpoint split_top (fuel : nat) (s : str) : list str :=
  match fuel with
  | 0 => [s]
  | S f => match top_comma s with Some (a, r) => a :: split_top f r | None => [s] end
  end.
Definition split_top_level (s : str) : list str := split_top (S (List.length s)) s.

(* extract_result_ok_type, parse_two_type_params, extract_tuple_types on the inner text *)
Definition result_ok (inner : str) : str :=
  match top_comma inner with Some (a, _) => trim a | None => inner end.
Definition map_kv (inner : str) : option (str * str) :=
  match top_comma inner with Some (k, v) => Some (trim k, trim v) | None => None end.
Definition tuple_parts (inner : str) : list str := map trim (split_top_level inner).

Local Open Scope string_scope.
Fixpoint parse2 (fuel : nat) (s0 : str) : option tstruct :=
  match fuel with
  | 0 => None
  | S f =>
    let s := trim s0 in
    if starts (L "&") s then parse2 f (skipn 1 s) else
    match wrapped "Option<" s with Some inner => option_map TOpt (parse2 f inner) | None =>
    match wrapped "Result<" s with
    | Some inner => option_map TRes (parse2 f (result_ok inner))
    | None =>
    match wrapped "Vec<" s with Some inner => option_map TArr (parse2 f inner) | None =>
    match (match wrapped "HashMap<" s with
           | Some inner => match map_kv inner with Some kv => Some kv | None => None end
           | None => None end),
          (match wrapped "BTreeMap<" s with
           | Some inner => map_kv inner
           | None => None end) with
    | Some (k, v), _ | None, Some (k, v) =>
        match parse2 f k, parse2 f v with Some k', Some v' => Some (TMap k' v') | _, _ => None end
    | None, None =>
    match (match wrapped "HashSet<" s with Some i => Some i | None => wrapped "BTreeSet<" s end) with
    | Some inner => option_map TSet (parse2 f inner)
    | None =>
    if starts (L "(") s && ends_with ")"%char s then
      let inner := mid 1 1 s in
      if all_blank inner then Some (TPrim (L "void"))
      else option_map TTuple (mapM (parse2 f) (tuple_parts inner))
    else match prim_of s with Some p => Some (TPrim p) | None => Some (TCustom s) end
    end end end end end
  end.

Definition parse_type_structure2 (s : str) : option tstruct := parse2 (S (List.length s)) s.
