(* C07: which files the analysis sees at all. Composition of the C07 model with the discovery model of C03
   (Model/C03Discover.v: the walk hands out every regular file with its components below the project path;
   ast_cache.rs parse_and_cache_all_files keeps a file when its extension is rs and no DIRECTORY component
   below the project path is named target or .git, and skips - with a message on stderr - a file that
   cannot be read as UTF-8 or that syn::parse_file rejects).
   A project-with-layout is the list of walked files (components below the project path, content); the
   project the C07 model runs on is the list of the accepted, parsable ones. Definitions only. *)
From Coq Require Import String Ascii.
From Coq Require Import List Arith Bool.
Require Import TT.Model.Str TT.Model.C07Reach.
Require TT.Model.C03Discover.
Import ListNotations.
Local Open Scope list_scope.

(* what read_to_string + syn::parse_file make of one walked file, as far as C07 looks at it *)
Inductive lcontent :=
| LParsed (its : list item)    (* syn::parse_file succeeds: these items *)
| LUnparsable                  (* valid UTF-8, rejected by the parser *)
| LNotUtf8.                    (* read_to_string fails *)
Definition lfile := (list str * lcontent)%type.     (* components below the project path, file name last *)
Definition lproject := list lfile.                   (* the walk, in AstCache iteration order *)

(* the path of a file relative to the project path: src/sub/m.rs *)
Definition rel_path (comps : list str) : str := join (L "/") comps.

(* parse_and_cache_all_files: the acceptance test is C03Discover.accepted, the two Err arms continue *)
Definition scan_file (root : str) (f : lfile) : list (str * list item) :=
  if C03Discover.accepted root (fst f)
  then match snd f with LParsed its => [(rel_path (fst f), its)] | LUnparsable => [] | LNotUtf8 => [] end
  else [].
Definition scanned (root : str) (lp : lproject) : project := flat_map (scan_file root) lp.

(* types.ts of a project-with-layout *)
Definition layout_declared (o : orders) (root : str) (lp : lproject) : option (list str) :=
  C07Reach.declared o (scanned root lp).
