(* C09: the constants of the Zod-mode types.ts as a whole (zod/generator.rs generate_types_file_content,
   zod/templates/types.ts.tera: struct_schemas, then param_schemas) and the identifiers their right-hand
   sides mention. The right-hand side of a field is the expression tree of the C10 renderer model
   (Model/C10Zod.v zex_of, read-only, no type mappings); definitions only. *)
From Coq Require Import String Ascii.
From Coq Require Import List Arith Bool.
Require Import TT.Model.Base TT.Model.Str TT.Model.C07TypeParse TT.Model.C07Harvest TT.Model.C07Worklist TT.Model.C07Reach.
Require TT.Model.TypeParse TT.Model.C10Zod.
Require Import TT.Spec.TsLex TT.Spec.TsModule TT.Spec.TsObs TT.Spec.C07Spec TT.Spec.C09Spec.
Import ListNotations.
Local Open Scope list_scope.

(* the TypeStructure of this development and the one of Model/TypeParse.v are the same inductive type twice *)
Fixpoint conv (t : tstruct) : TT.Model.TypeParse.tstruct :=
  match t with
  | TPrim s => TT.Model.TypeParse.TPrim s
  | TArr u => TT.Model.TypeParse.TArr (conv u)
  | TMap k v => TT.Model.TypeParse.TMap (conv k) (conv v)
  | TSet u => TT.Model.TypeParse.TSet (conv u)
  | TTuple l => TT.Model.TypeParse.TTuple (map conv l)
  | TOpt u => TT.Model.TypeParse.TOpt (conv u)
  | TRes u => TT.Model.TypeParse.TRes (conv u)
  | TCustom n => TT.Model.TypeParse.TCustom n
  end.
(* ZodSchemaBuilder::build_schema / build_param_schema of a field or parameter type, as an expression *)
Definition field_ex (t : tstruct) : ex := TT.Model.C10Zod.zex_of [] (conv t) false.
Definition string_ids (s : str) : list str :=
  match parse_type_structure s with Some t => ex_ids [] (field_ex t) | None => [] end.

(* identifiers of the right-hand side of a struct or enum schema: z.object({ k: <field schema>, .. }) / z.enum([..]) *)
Definition struct_ids (p : project) (n : str) : list str :=
  L "z" :: match field_strings p n with Some l => flat_map string_ids l | None => [] end.

(* NamingContext::compute_type_name: PascalCase of the command name *)
Definition is_us (c : ascii) : bool := Ascii.eqb c "_".
Definition up (c : ascii) : ascii :=
  let n := nat_of_ascii c in if (Nat.leb 97 n && Nat.leb n 122)%bool then ascii_of_nat (n - 32) else c.
Fixpoint pascal (cap : bool) (s : str) : str :=
  match s with
  | [] => []
  | c :: s' => if is_us c then pascal true s' else if cap then up c :: pascal false s' else c :: pascal false s'
  end.
Definition params_const (c : fndef) : str := pascal true (fn_name c) ++ L "ParamsSchema".
(* param_schemas.ts.tera: one constant per command with at least one (non Tauri, non channel) parameter; an
   Option parameter gets a second .optional() link, which mentions no identifier *)
Definition params_ids (c : fndef) : list str := L "z" :: flat_map (fun t => string_ids (tstr t)) (cmd_params c).
Definition param_consts (p : project) : list (str * list str) :=
  map (fun c => (params_const c, params_ids c))
      (filter (fun c => match cmd_params c with [] => false | _ => true end) (commands p)).

Definition zod_consts (o : orders) (p : project) : option (list (str * list str)) :=
  option_map (fun out => map (fun n => (schema_name n, struct_ids p n)) out ++ param_consts p) (emitted_zod o p).

(* the same with configured type mappings (the renderer model takes them; the order does not) *)
Definition string_ids_m (m : list (str * str)) (s : str) : list str :=
  match parse_type_structure s with Some t => ex_ids [] (TT.Model.C10Zod.zex_of m (conv t) false) | None => [] end.
Definition struct_ids_m (m : list (str * str)) (p : project) (n : str) : list str :=
  L "z" :: match field_strings p n with Some l => flat_map (string_ids_m m) l | None => [] end.
Definition param_consts_m (m : list (str * str)) (p : project) : list (str * list str) :=
  map (fun c => (params_const c, L "z" :: flat_map (fun t => string_ids_m m (tstr t)) (cmd_params c)))
      (filter (fun c => match cmd_params c with [] => false | _ => true end) (commands p)).
Definition zod_consts_m (m : list (str * str)) (o : orders) (p : project) : option (list (str * list str)) :=
  option_map (fun out => map (fun n => (schema_name n, struct_ids_m m p n)) out ++ param_consts_m m p) (emitted_zod o p).

(* no name that the module could confuse with a parameter schema: neither a defined type nor a custom name
   mentioned by a field or a parameter ends in Params *)
Definition no_params_suffix (p : project) : bool :=
  forallb (fun n => negb (ends_in "Params" n)) (def_names p)
  && forallb (fun n => forallb (fun m => negb (ends_in "Params" m)) (schema_refs p n)) (def_names p)
  && forallb (fun c => forallb (fun t => forallb (fun m => negb (ends_in "Params" m)) (ts_of (tstr t))) (cmd_params c)) (commands p).
