(* C06: how a serialized name is printed into types.ts (definitions only).
   Anchors (/repo/src/generators): base/templates.rs ts_key_filter / is_identifier_name / escape_js_filter,
   zod/filters.rs escape_for_js; templates partials/interface.tera, partials/enum.tera,
   zod partials/schema.ts.tera, zod/generator.rs generate_enum_schema.
   The five sequential replace calls of the escape functions equal the character-wise map below
   (proved for the identical escape_js_string in Proofs/C11Proofs.v, escape_charwise). *)
From Coq Require Import String Ascii.
From Coq Require Import List Arith Bool.
Require Import TT.Model.Str.
Import ListNotations.
Local Open Scope char_scope.
Local Open Scope list_scope.

Definition DQ : ascii := """".
Definition BS : ascii := "\".
Definition LF : ascii := ascii_of_nat 10.
Definition CR : ascii := ascii_of_nat 13.
Definition TAB : ascii := ascii_of_nat 9.
Definition esc1 (c : ascii) : str :=
  if Ascii.eqb c BS then [BS; BS] else if Ascii.eqb c DQ then [BS; DQ]
  else if Ascii.eqb c LF then [BS; "n"] else if Ascii.eqb c CR then [BS; "r"]
  else if Ascii.eqb c TAB then [BS; "t"] else [c].
Definition escape_js (s : str) : str := flat_map esc1 s.

(* an enum literal (enum.tera, generate_enum_schema): always a double-quoted escaped literal *)
Definition literal_text (name : str) : str := DQ :: escape_js name ++ [DQ].
(* ts_key: bare when is_identifier_name(name) (a Unicode test: the choice is a parameter here),
   a double-quoted escaped literal otherwise *)
Definition key_text_of (bare : bool) (name : str) : str := if bare then name else literal_text name.
