(* C06: how a serialized name is printed into types.ts (definitions only).
   Anchors (/repo/src/generators): base/templates.rs ts_key_filter / is_identifier_name / escape_js_filter,
   zod/filters.rs escape_for_js; templates partials/interface.tera, partials/enum.tera,
   zod partials/schema.ts.tera, zod/generator.rs generate_enum_schema.
   The five sequential replace calls of the escape functions equal the character-wise map below
   (proved for the identical escape_js_string in Proofs/C11Proofs.v, escape_charwise). *)
From Coq Require Import String Ascii.
From Coq Require Import List Arith Bool.
Require Import TT.Model.Str.
Import ListNotations.
Local Open Scope char_scope.
Local Open Scope list_scope.

Definition DQ : ascii := """".
Definition BS : ascii := "\".
Definition LF : ascii := ascii_of_nat 10.
Definition CR : ascii := ascii_of_nat 13.
Definition TAB : ascii := ascii_of_nat 9.
Definition esc1 (c : ascii) : str :=
  if Ascii.eqb c BS then [BS; BS] else if Ascii.eqb c DQ then [BS; DQ]
  else if Ascii.eqb c LF then [BS; "n"] else if Ascii.eqb c CR then [BS; "r"]
  else if Ascii.eqb c TAB then [BS; "t"] else [c].
Definition escape_js (s : str) : str := flat_map esc1 s.

(* an enum literal (enum.tera, generate_enum_schema): always a double-quoted escaped literal *)
Definition literal_text (name : str) : str := DQ :: escape_js name ++ [DQ].
(* ts_key: bare when is_identifier_name(name) (a Unicode test: the choice is a parameter here),
   a double-quoted escaped literal otherwise *)
Definition key_text_of (bare : bool) (name : str) : str := if bare then name else literal_text name.

(* ------------------------------------------------------------------ deepening round 7
   the escape functions as written: five sequential str::replace(char, &str) calls (escape_js_filter,
   escape_for_js, the quoted closure of ts_key_filter). The pattern characters are ASCII, so on UTF-8
   bytes a replace of one character is the byte-wise map below. *)
Definition replace1 (c : ascii) (rep : str) (s : str) : str := flat_map (fun x => if Ascii.eqb x c then rep else [x]) s.
Definition escape_js_code (s : str) : str :=
  replace1 TAB [BS; "t"] (replace1 CR [BS; "r"] (replace1 LF [BS; "n"] (replace1 DQ [BS; DQ] (replace1 BS [BS; BS] s)))).
Definition quoted_code (name : str) : str := DQ :: escape_js_code name ++ [DQ].
Definition ts_key_code (bare : bool) (name : str) : str := if bare then name else quoted_code name.

(* one printed member: serialized name, the choice ts_key made, the optional marker and the text the
   template prints after the colon (a TypeScript type in interface.tera, a Zod expression in schema.ts.tera) *)
Record member := { m_name : str; m_bare : bool; m_opt : bool; m_value : str }.
(* partials/interface.tera: what follows the opening brace of  export interface N {  *)
Definition member_text (m : member) : str :=
  LF :: L "  " ++ ts_key_code (m_bare m) (m_name m) ++ (if m_opt m then L "?" else []) ++ L ": " ++ m_value m ++ L ";".
Definition interface_body (ms : list member) : str := flat_map member_text ms ++ [LF; "}"].
Definition interface_text (n : str) (ms : list member) : str := L "export interface " ++ n ++ L " {" ++ interface_body ms.
(* zod partials/schema.ts.tera: what follows  export const NSchema = z.object({  *)
Definition prop_text (m : member) : str :=
  LF :: L "  " ++ ts_key_code (m_bare m) (m_name m) ++ L ": " ++ m_value m ++ L ",".
Definition zobject_body (ms : list member) : str := flat_map prop_text ms ++ LF :: L "});".
Definition zobject_text (n : str) (ms : list member) : str := L "export const " ++ n ++ L "Schema = z.object({" ++ zobject_body ms.
(* zod/generator.rs generate_enum_schema, non-empty variant list: the literals joined by comma and space *)
Definition zenum_list (names : list str) : str := join (L ", ") (map quoted_code names).
Definition zenum_text (n : str) (names : list str) : str := L "export const " ++ n ++ L "Schema = z.enum([" ++ zenum_list names ++ L "]);".
(* partials/enum.tera with the code-level escape *)
Definition alias_text (n : str) (names : list str) : str :=
  L "export type " ++ n ++ L " = " ++ join (L " | ") (map quoted_code names) ++ L ";".
