(* C05: the three type_to_string variants on syn types OUTSIDE the documented language, where they
   differ (src/analysis/command_parser.rs:198, struct_parser.rs:221, channel_parser.rs:124):
     arrays [T; N]            command: unknown     struct: [T; _]     channel: [T]
     slices [T]               command: unknown     struct: [T]        channel: unknown
     non-type generic args    command: dropped (Foo<> when none is left)
       (lifetimes, consts)    struct: printed as unknown             channel: dropped (Foo when none is left)
     any other type           unknown in all three
   On the documented language (Model/TypeParse.rty) all three print TypeParse.tts
   (Proofs/C05TypeStrProofs.v). No proofs here. *)
From Coq Require Import String Ascii.
From Coq Require Import List Arith Bool.
Require Import TT.Model.Str TT.Model.TypeParse.
Import ListNotations.
Local Open Scope list_scope.

(* a path segment: identifier and, when angle brackets are present, its arguments
   (Some t = a type argument, None = a lifetime / const / binding argument) *)
Inductive xty :=
| XPath (segs : list (str * option (list (option xty))))
| XRef (t : xty)
| XTuple (l : list xty)
| XArray (t : xty)
| XSlice (t : xty)
| XOther.

Definition type_args (f : xty -> str) (args : list (option xty)) : list str :=
  flat_map (fun a => match a with Some t => [f t] | None => [] end) args.
Definition is_nil {A} (l : list A) : bool := match l with [] => true | _ => false end.

(* CommandParser::type_to_string *)
Fixpoint pr_cmd (t : xty) : str :=
  match t with
  | XPath segs =>
      join (L "::") (map (fun sg =>
        match snd sg with
        | None => fst sg
        | Some args => if is_nil args then fst sg      (* PathArguments::is_empty *)
                       else fst sg ++ L "<" ++ join (L ", ") (type_args pr_cmd args) ++ L ">"
        end) segs)
  | XRef u => L "&" ++ pr_cmd u
  | XTuple [] => L "()"
  | XTuple l => L "(" ++ join (L ", ") (map pr_cmd l) ++ L ")"
  | XArray _ | XSlice _ | XOther => L "unknown"
  end.

(* StructParser::type_to_string *)
Fixpoint pr_struct (t : xty) : str :=
  match t with
  | XPath segs =>
      join (L "::") (map (fun sg =>
        match snd sg with
        | None => fst sg
        | Some args => fst sg ++ L "<" ++
            join (L ", ") (map (fun a => match a with Some u => pr_struct u | None => L "unknown" end) args) ++ L ">"
        end) segs)
  | XRef u => L "&" ++ pr_struct u
  | XTuple l => L "(" ++ join (L ", ") (map pr_struct l) ++ L ")"
  | XArray u => L "[" ++ pr_struct u ++ L "; _]"
  | XSlice u => L "[" ++ pr_struct u ++ L "]"
  | XOther => L "unknown"
  end.

(* ChannelParser::type_to_string *)
Fixpoint pr_chan (t : xty) : str :=
  match t with
  | XPath segs =>
      join (L "::") (map (fun sg =>
        match snd sg with
        | None => fst sg
        | Some args => let ts := type_args pr_chan args in
                       if is_nil ts then fst sg else fst sg ++ L "<" ++ join (L ", ") ts ++ L ">"
        end) segs)
  | XRef u => L "&" ++ pr_chan u
  | XTuple [] => L "()"
  | XTuple l => L "(" ++ join (L ", ") (map pr_chan l) ++ L ")"
  | XArray u => L "[" ++ pr_chan u ++ L "]"
  | XSlice _ | XOther => L "unknown"
  end.

(* the documented language inside the larger syntax *)
Fixpoint emb (t : rty) : xty :=
  match t with
  | RPath n [] => XPath [(n, None)]
  | RPath n args => XPath [(n, Some (map (fun a => Some (emb a)) args))]
  | RRef u => XRef (emb u)
  | RTuple l => XTuple (map emb l)
  end.
