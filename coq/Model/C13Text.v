(* C13 round 7: the text level. The skeleton Model/C13Order.v names the content of a definition by an id
   (t_body, c_name, e_name, e_pay). Here the ids are resolved by a content table to the items as written
   (the syntax of Model/Pipeline.v) and the generated files are the text-level generator models
   (Pipeline.v token streams in plain mode, PipelineZod.v / Events.v text) applied to the items in the order
   the skeleton computes: structs in the order of the type declarations of types.ts, commands in the order of
   the wrappers of commands.ts, listeners in the order of events.ts. Also the order-bearing lines of the two
   graph files as text. Definitions only.
   The text-level models cover structs (no enums), the default naming configuration and the documented
   feature set, as Pipeline.v / PipelineZod.v / Events.v do. *)
From Coq Require Import String Ascii List Arith Bool Permutation.
Require Import TT.Model.Base TT.Model.Str TT.Model.TypeParse TT.Model.Render TT.Spec.TsLex.
Require TT.Model.Pipeline TT.Model.PipelineZod TT.Model.Events.
Require Import TT.Model.Topo TT.Model.C13Order.
Import ListNotations.
Local Open Scope list_scope.


(* what the ids of the skeleton stand for *)
Record content := {
  k_struct : nat -> Pipeline.struct_def;    (* body id of a type definition -> the struct as written *)
  k_cmd : name -> Pipeline.fn_def;          (* command id -> the function item *)
  k_event : name -> str;             (* event id -> the event name as written *)
  k_pay : nat -> str;                (* payload id -> the Rust type of the payload as the parser prints it *)
  k_type : name -> str               (* type id -> the type name *)
}.

(* the items in generation order, read off the declarations *)
Definition decl_structs (k : content) (d : decl) : list Pipeline.struct_def :=
  match d with DType _ b _ => [k_struct k b] | DSchema _ b _ => [k_struct k b] | _ => [] end.
Definition decl_cmds (k : content) (d : decl) : list Pipeline.fn_def :=
  match d with DWrapper c => [k_cmd k c] | _ => [] end.
Definition decl_events (k : content) (d : decl) : list (str * str) :=
  match d with DListener e pay => [(k_event k e, k_pay k pay)] | _ => [] end.
Definition o_structs (k : content) (o : output) : list Pipeline.struct_def := flat_map (decl_structs k) (o_types o).
Definition o_cmds (k : content) (o : output) : list Pipeline.fn_def := flat_map (decl_cmds k) (o_commands o).

(* index.ts *)
Definition reexport_text (d : decl) : str :=
  match d with
  | DReexport 0 => L "export * from './types';"
  | DReexport 1 => L "export * from './commands';"
  | DReexport _ => L "export * from './events';"
  | _ => []
  end.

(* the generated files: token streams in plain mode (types.ts, commands.ts), text in zod mode, for events.ts
   and for index.ts *)
Record text_out := {
  x_types_plain : list tk; x_commands_plain : list tk;
  x_types_zod : str; x_commands_zod : str;
  x_events : option str; x_index : list str }.

Definition render_out (k : content) (zod : bool) (o : output) : text_out :=
  let ss := o_structs k o in let cs := o_cmds k o in
  {| x_types_plain := if zod then [] else Pipeline.types_toks ss cs;
     x_commands_plain := if zod then [] else Pipeline.commands_toks cs;
     x_types_zod := if zod then PipelineZod.zod_types_text ss cs else [];
     x_commands_zod := if zod then PipelineZod.zod_commands_text cs else [];
     x_events := match o_events o with
                 | Some l => Some (Events.events_text (flat_map (decl_events k) l))
                 | None => None end;
     x_index := map reexport_text (o_index o) |}.

(* the run at text level: hash orders w arrive, the files are written (or nothing, without a command) *)
Definition text_files (k : content) (zod : bool) (w : omega) (p : project) : option text_out :=
  match gen zod w p with Some o => Some (render_out k zod o) | None => None end.

(* plain types.ts is its import line followed by one block of tokens per declaration *)
Definition chan_import (cs : list Pipeline.fn_def) : list tk :=
  if existsb (fun f => negb (Nat.eqb (List.length (Pipeline.channels f)) 0)) cs
  then [Pipeline.I "import"; Pipeline.I "type"; Pipeline.Pn "{"; Pipeline.I "Channel"; Pipeline.Pn "}"; Pipeline.I "from"; Pipeline.S1 "@tauri-apps/api/core"; Pipeline.Pn ";"] else [].
Definition types_blocks (k : content) (o : output) : list (list tk) :=
  map Pipeline.struct_toks (o_structs k o) ++ map Pipeline.params_iface_toks (o_cmds k o).
Definition commands_blocks (k : content) (o : output) : list (list tk) := map Pipeline.wrapper_toks (o_cmds k o).

(* ---------- the graph files: the order-bearing lines as text ---------- *)
Definition NL : str := [ascii_of_nat 10].
Definition q (s : str) : str := L """" ++ s ++ L """".
Fixpoint indent_of (n : nat) : str := match n with 0 => [] | S m => L "  " ++ indent_of m end.
(* UTF-8 of the box-drawing pieces the code prints: U+251C U+2500 and U+2514 U+2500 *)
Definition b3 (a b c : nat) : str := [ascii_of_nat a; ascii_of_nat b; ascii_of_nat c].
Definition tee : str := b3 226 148 156 ++ b3 226 148 128.
Definition ell : str := b3 226 148 148 ++ b3 226 148 128.
Record viz_text := {
  vt_depends : list (str * str);   (* txt: per discovered type with dependencies, (type name, the depends-on line) *)
  vt_chains : list str;            (* txt: the lines of the dependency-chains section *)
  vt_nodes : list str;             (* dot: the type node lines *)
  vt_edges : list str }.           (* dot: the type -> dependency edge lines *)
Definition viz_render (k : content) (v : vizout) : viz_text :=
  {| vt_depends := flat_map (fun e => match snd e with
                                      | [] => []
                                      | ds => [(k_type k (fst e), L "  " ++ ell ++ L " depends on: " ++ join (L ", ") (map (k_type k) ds))]
                                      end) (v_types v);
     vt_chains := map (fun e => indent_of (fst e) ++ tee ++ L " " ++ k_type k (snd e)) (v_chains v);
     vt_nodes := map (fun n => L "  " ++ q (k_type k n) ++ L " [color=green];") (v_nodes v);
     vt_edges := map (fun e => L "  " ++ q (k_type k (fst e)) ++ L " -> " ++ q (k_type k (snd e)) ++ L ";") (v_edges v) |}.
Definition viz_text_of (k : content) (w : omega) (p : project) : viz_text := viz_render k (viz w p).

(* two text outputs that differ at most in the order of their declaration blocks (plain mode) *)
Definition text_perm (k : content) (a b : option output) : Prop :=
  match a, b with
  | Some o, Some o' =>
      Permutation (types_blocks k o) (types_blocks k o') /\ chan_import (o_cmds k o) = chan_import (o_cmds k o') /\
      Permutation (commands_blocks k o) (commands_blocks k o') /\
      map reexport_text (o_index o) = map reexport_text (o_index o')
  | None, None => True
  | _, _ => False
  end.

(* the tokens of a generated file cut into blocks at the keyword export (run-time side of the text-level
   correspondence) *)
Fixpoint cut_export (cur : list tk) (l : list tk) : list (list tk) :=
  match l with
  | [] => [rev cur]
  | KId i :: r => if str_eqb i (L "export") then rev cur :: cut_export [KId i] r else cut_export (KId i :: cur) r
  | t :: r => cut_export (t :: cur) r
  end.
