(* C11: faithful model of
     - proc_macro2 token printing of a #[validate(..)] meta list          (tok_string; copied from Model/Scan.v)
     - src/analysis/validator_parser.rs  (substring scanners on tokens.to_string(), byte offset arithmetic)
     - src/generators/zod/schema_builder.rs (render_type / apply_* / escape_js_string)
   Definitions only. Strings are byte lists (UTF-8). Defects of the code are reproduced, not repaired. *)
From Coq Require Import String Ascii List Arith Lia Bool NArith DecimalString.
Require Import TT.Model.Str.
Import ListNotations.
Local Open Scope char_scope.
Local Open Scope list_scope.

(* ------------------------------------------------------------------ declared attributes (the syn AST) *)
Inductive num := Num (neg : bool) (lit : str).              (* [-]<literal text> *)
Inductive arg :=
| AMin (n : num) | AMax (n : num)
| AMsg (lit : str) (value : str)                            (* literal as written in the source, and its value *)
| AEqual (n : num)                                          (* length(equal = n): legal in validator, not read by the scanners *)
| ACode (lit : str).                                        (* code = "...": legal in validator, never a constraint *)
Inductive item :=
| ILength (args : list arg)
| IRange (args : list arg)
| IEmail (margs : option (list arg))                        (* email  or  email(message = ..) *)
| IUrl (margs : option (list arg))
| IOther (name : str) (kv : option (list (str * str))).     (* custom(function = "f"), must_match(other = "g"), required, .. *)
Inductive attr :=
| AValidate (items : list item)                             (* #[validate(items)] *)
| AValidatePath                                             (* #[validate]  (not a meta list) *)
| ANotValidate.                                             (* any other attribute, e.g. #[serde(default)] *)
Inductive ty := TyString | TyNum | TyBool | TyVec (t : ty) | TyOpt (t : ty) | TyCustom (name : str).
Record field := { f_ty : ty; f_attrs : list attr }.

(* ------------------------------------------------------------------ proc_macro2 Display (fallback printer) *)
Inductive delim := DParen | DBrace | DBracket | DNone.
Inductive tt := TIdent (s : str) | TPunct (c : ascii) (joint : bool) | TLit (src : str) | TGroup (d : delim) (inner : list tt).

Definition joint_of (t : tt) : bool := match t with TPunct _ j => j | _ => false end.
Fixpoint tok_one (t : tt) : str :=
  match t with
  | TIdent s => s | TPunct c _ => [c] | TLit s => s
  | TGroup d inner =>
      let body := (fix go (first joint : bool) (l : list tt) : str :=
                     match l with
                     | [] => []
                     | x :: r => (if first || joint then [] else L " ") ++ tok_one x ++ go false (joint_of x) r
                     end) true false inner in
      match d with
      | DParen => L "(" ++ body ++ L ")"
      | DBracket => L "[" ++ body ++ L "]"
      | DBrace => L "{ " ++ body ++ (match inner with [] => [] | _ => L " " end) ++ L "}"
      | DNone => body end
  end.
Fixpoint tok_go (first joint : bool) (l : list tt) : str :=
  match l with
  | [] => []
  | x :: r => (if first || joint then [] else L " ") ++ tok_one x ++ tok_go false (joint_of x) r
  end.
Definition tok_string (l : list tt) : str := tok_go true false l.

Fixpoint sep_toks (sep : tt) (l : list (list tt)) : list tt :=
  match l with [] => [] | [x] => x | x :: r => x ++ sep :: sep_toks sep r end.
Definition comma := TPunct "," false.
Definition num_toks (n : num) : list tt :=
  match n with Num neg lit => (if neg then [TPunct "-" false] else []) ++ [TLit lit] end.
Definition arg_toks (a : arg) : list tt :=
  match a with
  | AMin n => TIdent (L "min") :: TPunct "=" false :: num_toks n
  | AMax n => TIdent (L "max") :: TPunct "=" false :: num_toks n
  | AMsg lit _ => [TIdent (L "message"); TPunct "=" false; TLit lit]
  | AEqual n => TIdent (L "equal") :: TPunct "=" false :: num_toks n
  | ACode lit => [TIdent (L "code"); TPunct "=" false; TLit lit]
  end.
Definition args_group (args : list arg) : tt := TGroup DParen (sep_toks comma (map arg_toks args)).
Definition kv_toks (p : str * str) : list tt := [TIdent (fst p); TPunct "=" false; TLit (snd p)].
Definition item_toks (i : item) : list tt :=
  match i with
  | ILength args => [TIdent (L "length"); args_group args]
  | IRange args => [TIdent (L "range"); args_group args]
  | IEmail None => [TIdent (L "email")]
  | IEmail (Some args) => [TIdent (L "email"); args_group args]
  | IUrl None => [TIdent (L "url")]
  | IUrl (Some args) => [TIdent (L "url"); args_group args]
  | IOther name None => [TIdent name]
  | IOther name (Some kv) => [TIdent name; TGroup DParen (sep_toks comma (map kv_toks kv))]
  end.
Definition items_tokens (items : list item) : str := tok_string (sep_toks comma (map item_toks items)).

(* what parse_validator_attributes sees of one attribute: None = not #[validate..];
   Some None = validate but syn::parse2::<MetaList> fails; Some (Some s) = tokens.to_string() *)
Definition attr_view (a : attr) : option (option str) :=
  match a with
  | AValidate items => Some (Some (items_tokens items))
  | AValidatePath => Some None
  | ANotValidate => None
  end.

(* ------------------------------------------------------------------ string search (byte offsets) *)
Fixpoint find_sub_go (fuel : nat) (pat : str) (pre : str) (s : str) : option (str * str) :=
  match fuel with 0 => None | S f =>
    if starts pat s then Some (rev pre, skipn (List.length pat) s)
    else match s with c :: r => find_sub_go f pat (c :: pre) r | [] => None end
  end.
(* (text before the first occurrence, text after it) *)
Definition find_sub (pat : string) (s : str) : option (str * str) := find_sub_go (S (List.length s)) (L pat) [] s.
Definition contains (pat : string) (s : str) : bool := match find_sub pat s with Some _ => true | None => false end.
Definition after_char (c : ascii) (s : str) : option (str * str) :=
  match find_char c s with Some i => Some (firstn i s, skipn (S i) s) | None => None end.

(* str::trim / trim_start: ASCII white space (the multi-byte white space characters of
   char::is_whitespace are not modelled; the generators do not put them next to a scanned position) *)
Definition is_ws (c : ascii) : bool :=
  let n := nat_of_ascii c in (Nat.eqb n 32 || ((9 <=? n) && (n <=? 13)))%nat.
Fixpoint wtrim_l (s : str) : str := match s with c :: s' => if is_ws c then wtrim_l s' else s | [] => [] end.
Definition wtrim (s : str) : str := rev (wtrim_l (rev (wtrim_l s))).

(* ------------------------------------------------------------------ outcomes: Rust panics are values *)
Inductive outcome (A : Type) := Panic | Ok (a : A).
Arguments Panic {A}. Arguments Ok {A} _.
Definition obind {A B} (x : outcome A) (f : A -> outcome B) : outcome B := match x with Panic => Panic | Ok a => f a end.

Definition byte_n (b : ascii) : N := N_of_ascii b.
Definition is_cont (b : ascii) : bool := (128 <=? byte_n b)%N && (byte_n b <? 192)%N.
Definition boundary (s : str) (i : nat) : bool :=
  if Nat.eqb i (List.length s) then true
  else match nth_error s i with Some b => negb (is_cont b) | None => false end.
(* &s[..i] *)
Definition slice_to (s : str) (i : nat) : outcome str := if boundary s i then Ok (firstn i s) else Panic.

(* ------------------------------------------------------------------ validator_parser.rs *)
(* tokens[start + paren_start + 1 .. start + paren_start + paren_end] *)
Definition paren_content (kw : string) (tokens : str) : option str :=
  match find_sub kw tokens with
  | Some (_, r0) =>
      match after_char "(" (L kw ++ r0) with
      | Some (_, inside) => match find_char ")" inside with
                            | Some j => Some (firstn j inside)
                            | None => None end
      | None => None end
  | None => None end.
(* the text handed to str::parse: content.find(kw), then '=', then up to the next ',' (or the end), trimmed *)
Definition bound_text (kw : string) (content : str) : option str :=
  match find_sub kw content with
  | Some (_, r0) => match after_char "=" (L kw ++ r0) with
                    | Some (_, after_eq) =>
                        Some (wtrim (match find_char "," after_eq with Some i => firstn i after_eq | None => after_eq end))
                    | None => None end
  | None => None end.

Definition is_digit (c : ascii) : bool := let n := nat_of_ascii c in ((48 <=? n) && (n <=? 57))%nat.
Definition digit_val (c : ascii) : N := (N_of_ascii c - 48)%N.
Definition n_of_digits (d : str) : N := fold_left (fun acc c => (acc * 10 + digit_val c)%N) d 0%N.
Definition show_N (n : N) : str := list_ascii_of_string (NilEmpty.string_of_uint (N.to_uint n)).
(* str::parse::<u64> followed by Display: optional '+', one or more digits, value <= u64::MAX *)
Definition parse_u64 (s : str) : option str :=
  let d := match s with "+" :: r => r | _ => s end in
  match d with
  | [] => None
  | _ => if forallb is_digit d then
           let n := n_of_digits d in
           if (n <=? 18446744073709551615)%N then Some (show_N n) else None
         else None
  end.

(* the closing-quote scan: char_indices() - returns the BYTE offset of the closing quote
   (continuation bytes belong to the character before them: they advance the offset and nothing else) *)
Fixpoint scan_close (q : ascii) (s : str) (i : nat) (escaped : bool) : option nat :=
  match s with
  | [] => None
  | b :: s' =>
      if is_cont b then scan_close q s' (S i) escaped
      else if escaped then scan_close q s' (S i) false
      else if Ascii.eqb b "\" then scan_close q s' (S i) true
      else if Ascii.eqb b q then Some i
      else scan_close q s' (S i) false
  end.
Fixpoint replace_all (fuel : nat) (pat rep : str) (s : str) : str :=
  match fuel with 0 => s | S f =>
    if starts pat s then rep ++ replace_all f pat rep (skipn (List.length pat) s)
    else match s with c :: r => c :: replace_all f pat rep r | [] => [] end
  end.
Definition repl (p r : str) (s : str) : str := replace_all (S (List.length s)) p r s.
Definition bs : ascii := "\".
Definition dq : ascii := """".
Definition sq : ascii := "'".
Definition nl : ascii := ascii_of_nat 10.
Definition cr : ascii := ascii_of_nat 13.
Definition tab : ascii := ascii_of_nat 9.
(* .replace("\\\"", "\"").replace("\\'", "'").replace("\\n", "\n").replace("\\t", "\t").replace("\\\\", "\\") *)
Definition unescape (m : str) : str :=
  repl [bs; bs] [bs] (repl [bs; "t"] [tab] (repl [bs; "n"] [nl] (repl [bs; sq] [sq] (repl [bs; dq] [dq] m)))).

Definition parse_message (content : str) : outcome (option str) :=
  match find_sub "message" content with
  | Some (_, r0) =>
      match after_char "=" (L "message" ++ r0) with
      | Some (_, r) =>
          match wtrim_l r with
          | q :: rest =>
              if Ascii.eqb q dq || Ascii.eqb q sq then
                match scan_close q rest 0 false with
                | Some i => obind (slice_to rest i) (fun m => Ok (Some (unescape m)))     (* &rest[..i], i a byte offset *)
                | None => Ok None end
              else Ok None
          | [] => Ok None end
      | None => Ok None end
  | None => Ok None end.

(* LengthConstraint / RangeConstraint with the bounds already printed (Display of u64 / f64) *)
Record cstr := { c_min : option str; c_max : option str; c_msg : option str }.
Definition empty_cstr := {| c_min := None; c_max := None; c_msg := None |}.

Section WithF64.
(* str::parse::<f64> followed by Display (None when parse fails). Supplied by the runner; see notes. *)
Variable dispf : str -> option str.

Definition parse_constraint (kw : string) (num : str -> option str) (tokens : str) : outcome (option cstr) :=
  if contains kw tokens then
    match paren_content kw tokens with
    | Some content =>
        let b k := match bound_text k content with Some t => num t | None => None end in
        obind (parse_message content) (fun m =>
          Ok (Some {| c_min := b "min"%string; c_max := b "max"%string; c_msg := m |}))
    | None => Ok (Some empty_cstr)
    end
  else Ok None.

Record vattrs := { v_length : option cstr; v_range : option cstr; v_email : bool; v_url : bool }.
Definition va_init := {| v_length := None; v_range := None; v_email := false; v_url := false |}.

Definition va_step (v : vattrs) (tokens : str) : outcome vattrs :=
  obind (parse_constraint "length" parse_u64 tokens) (fun l =>
  obind (parse_constraint "range" dispf tokens) (fun r =>
    Ok {| v_length := match l with Some c => Some c | None => v_length v end;
          v_range := match r with Some c => Some c | None => v_range v end;
          v_email := v_email v || contains "email" tokens;
          v_url := v_url v || contains "url" tokens |})).

Fixpoint va_fold (v : vattrs) (found : bool) (views : list (option (option str))) : outcome (option vattrs) :=
  match views with
  | [] => Ok (if found then Some v else None)
  | None :: r => va_fold v found r
  | Some None :: r => va_fold v true r
  | Some (Some t) :: r => obind (va_step v t) (fun v' => va_fold v' true r)
  end.
(* ValidatorParser::parse_validator_attributes *)
Definition parse_validator_attributes (attrs : list attr) : outcome (option vattrs) :=
  va_fold va_init false (map attr_view attrs).

(* ------------------------------------------------------------------ schema_builder.rs *)
Definition replace1 (c : ascii) (rep : str) (s : str) : str := flat_map (fun x => if Ascii.eqb x c then rep else [x]) s.
Definition escape_js_string (s : str) : str :=
  replace1 tab [bs; "t"] (replace1 cr [bs; "r"] (replace1 nl [bs; "n"] (replace1 dq [bs; dq] (replace1 bs [bs; bs] s)))).

Inductive tstruct := TsPrim (name : str) | TsOpt (t : tstruct) | TsArr (t : tstruct) | TsCustom (name : str).
Fixpoint tstruct_of (t : ty) : tstruct :=
  match t with
  | TyString => TsPrim (L "string") | TyNum => TsPrim (L "number") | TyBool => TsPrim (L "boolean")
  | TyVec t => TsArr (tstruct_of t) | TyOpt t => TsOpt (tstruct_of t) | TyCustom n => TsCustom n
  end.

Definition with_msg (m : option str) : str :=
  match m with Some msg => L ", { message: """ ++ escape_js_string msg ++ L """ }" | None => [] end.
(* the three-way if of apply_length_validator / apply_range_validator *)
Definition apply_cstr (schema : str) (c : cstr) : str :=
  match c_min c, c_max c with
  | Some mn, Some mx => schema ++ L ".min(" ++ mn ++ with_msg (c_msg c) ++ L ").max(" ++ mx ++ with_msg (c_msg c) ++ L ")"
  | Some mn, None => schema ++ L ".min(" ++ mn ++ with_msg (c_msg c) ++ L ")"
  | None, Some mx => schema ++ L ".max(" ++ mx ++ with_msg (c_msg c) ++ L ")"
  | None, None => schema
  end.
Definition apply_length_validator (schema : str) (v : option vattrs) (skip : bool) : str :=
  if skip then schema else
  match v with Some val => match v_length val with Some c => apply_cstr schema c | None => schema end | None => schema end.
Definition apply_range_validator (schema : str) (v : option vattrs) (skip : bool) : str :=
  if skip then schema else
  match v with Some val => match v_range val with Some c => apply_cstr schema c | None => schema end | None => schema end.
Definition apply_string_validators (schema : str) (v : option vattrs) (skip : bool) : str :=
  if skip then schema else
  match v with
  | Some val =>
      let r := schema ++ (if v_email val then L ".email()" else []) ++ (if v_url val then L ".url()" else []) in
      apply_length_validator r v skip
  | None => schema end.
Definition render_primitive (name : str) (v : option vattrs) (skip is_key : bool) : str :=
  if str_eqb name (L "string") then apply_string_validators (L "z.string()") v skip
  else if str_eqb name (L "number") then
    apply_range_validator (if is_key then L "z.number()" else L "z.coerce.number()") v skip
  else if str_eqb name (L "boolean") then L "z.coerce.boolean()"
  else if str_eqb name (L "void") then L "z.void()"
  else L "z.unknown() /* Unknown primitive: " ++ name ++ L " */".
(* render_type: the Optional arm passes skip_validation through to its inner type *)
Fixpoint render_type (t : tstruct) (v : option vattrs) (skip is_key : bool) : str :=
  match t with
  | TsOpt inner => render_type inner v skip is_key ++ L ".optional()"
  | TsPrim p => render_primitive p v skip is_key
  | TsArr inner => apply_length_validator (L "z.array(" ++ render_type inner v true false ++ L ")") v skip
  | TsCustom n => n ++ L "Schema"
  end.
Definition build_schema (t : tstruct) (v : option vattrs) : str := render_type t v false false.

(* the whole path for one field: attributes -> ValidatorAttributes -> chain text *)
Definition field_chain (f : field) : outcome (option vattrs * str) :=
  obind (parse_validator_attributes (f_attrs f)) (fun v => Ok (v, build_schema (tstruct_of (f_ty f)) v)).
(* a struct: every field is processed on its own (struct_parser.rs parse_field, generator.rs enrich loop) *)
Definition struct_chains (fs : list field) : list (outcome (option vattrs * str)) := map field_chain fs.
End WithF64.
