(* Faithful models of proc_macro2's token printing and of the substring scanners in
   serde_parser.rs / validator_parser.rs (index-free forms; byte-level forms add Panic) *)
From Coq Require Import String Ascii.
From Coq Require Import List Arith Lia Bool.
Require Import TT.Model.Str.
Import ListNotations.
Local Open Scope char_scope.
Local Open Scope list_scope.

(* ---- proc_macro2 fallback Display ---- *)
Inductive delim := DParen | DBrace | DBracket | DNone.
Inductive tt := TIdent (s : str) | TPunct (c : ascii) (joint : bool) | TLit (src : str) | TGroup (d : delim) (inner : list tt).

Definition joint_of (t : tt) : bool := match t with TPunct _ j => j | _ => false end.
Fixpoint tok_one (t : tt) : str :=
  match t with
  | TIdent s => s | TPunct c _ => [c] | TLit s => s
  | TGroup d inner =>
      let body := (fix go (first joint : bool) (l : list tt) : str :=
                     match l with
                     | [] => []
                     | x :: r => (if first || joint then [] else L " ") ++ tok_one x ++ go false (joint_of x) r
                     end) true false inner in
      match d with
      | DParen => L "(" ++ body ++ L ")"
      | DBracket => L "[" ++ body ++ L "]"
      | DBrace => L "{ " ++ body ++ (match inner with [] => [] | _ => L " " end) ++ L "}"
      | DNone => body end
  end.
Fixpoint tok_go (first joint : bool) (l : list tt) : str :=
  match l with
  | [] => []
  | x :: r => (if first || joint then [] else L " ") ++ tok_one x ++ tok_go false (joint_of x) r
  end.
Definition tok_string (l : list tt) : str := tok_go true false l.

(* ---- string search ---- *)
Fixpoint find_sub_go (fuel : nat) (pat : str) (pre : str) (s : str) : option (str * str) :=
  match fuel with 0 => None | S f =>
    if starts pat s then Some (rev pre, skipn (List.length pat) s)
    else match s with c :: r => find_sub_go f pat (c :: pre) r | [] => None end
  end.
Definition find_sub (pat : string) (s : str) : option (str * str) := find_sub_go (S (List.length s)) (L pat) [] s.
Definition contains (pat : string) (s : str) : bool := match find_sub pat s with Some _ => true | None => false end.
Definition after_char (c : ascii) (s : str) : option (str * str) :=      (* (before, after) the first c *)
  match find_char c s with Some i => Some (firstn i s, skipn (S i) s) | None => None end.

(* ---- serde_parser.rs ---- *)
Definition quoted_value (after_eq : str) : option str :=
  match after_char """" after_eq with
  | Some (_, r) => match after_char """" r with Some (v, _) => Some v | None => None end
  | None => None end.

Fixpoint parse_rename (fuel : nat) (tokens : str) : option str :=
  match fuel with 0 => None | S f =>
    match find_sub "rename" tokens with
    | None => None
    | Some (_, after_rename) =>
        if starts (L "_all") (trim_l after_rename) then parse_rename f (skipn 4 after_rename)   (* search_start = abs_pos + 10 *)
        else match after_char "=" after_rename with
             | Some (_, r) => quoted_value (trim_l r)
             | None => None end
    end end.
Definition parse_rename_all (tokens : str) : option str :=
  match find_sub "rename_all" tokens with
  | Some (_, r0) => match after_char "=" (L "rename_all" ++ r0) with       (* tokens[start..].find('=') *)
                    | Some (_, r) => quoted_value (trim_l r)
                    | None => None end
  | None => None end.
Definition field_skip (tokens : str) : bool := contains "skip" tokens && negb (contains "skip_serializing" tokens).

(* ---- validator_parser.rs ---- *)
Definition paren_content (kw : string) (tokens : str) : option str :=
  match find_sub kw tokens with
  | Some (_, r0) =>
      let from_kw := L kw ++ r0 in
      match after_char "(" from_kw with
      | Some (_, inside) => match find_char ")" (L "(" ++ inside) with          (* tokens[start+paren_start..].find(')') *)
                            | Some j => Some (firstn (j - 1) inside)
                            | None => None end
      | None => None end
  | None => None end.
Definition bound_text (kw : string) (content : str) : option str :=     (* text that is handed to parse::<..>() *)
  match find_sub kw content with
  | Some (_, r0) => match after_char "=" (L kw ++ r0) with
                    | Some (_, after_eq) => Some (trim (match find_char "," after_eq with Some i => firstn i after_eq | None => after_eq end))
                    | None => None end
  | None => None end.
Definition is_digit (c : ascii) : bool := let n := nat_of_ascii c in ((48 <=? n) && (n <=? 57))%nat.
(* shape test only: str::parse::<u64> accepts an optional '+' and digits; ::<f64> also '-', '.', exponent *)
Definition parses_u64 (s : str) : bool :=
  let d := match s with "+" :: r => r | _ => s end in negb (Nat.eqb (List.length d) 0) && forallb is_digit d.
Definition parses_f64 (s : str) : bool :=
  let d := match s with "+" :: r | "-" :: r => r | _ => s end in
  negb (Nat.eqb (List.length d) 0) && existsb is_digit d &&
  forallb (fun c => is_digit c || Ascii.eqb c "." || Ascii.eqb c "e" || Ascii.eqb c "E" || Ascii.eqb c "-" || Ascii.eqb c "+") d.

Fixpoint scan_close (q : ascii) (s : str) (i : nat) (esc : bool) : option nat :=   (* CHAR index of the closing quote; ASCII reading *)
  match s with
  | [] => None
  | b :: r => if esc then scan_close q r (S i) false
              else if Ascii.eqb b "\" then scan_close q r (S i) true
              else if Ascii.eqb b q then Some i else scan_close q r (S i) false
  end.
Fixpoint replace_all (fuel : nat) (pat rep : str) (s : str) : str :=
  match fuel with 0 => s | S f =>
    if starts pat s then rep ++ replace_all f pat rep (skipn (List.length pat) s)
    else match s with c :: r => c :: replace_all f pat rep r | [] => [] end
  end.
Definition repl (p r : string) (s : str) : str := replace_all (S (List.length s)) (L p) (L r) s.
Definition unescape (m : str) : str :=
  repl "\\" "\" (repl "\t" (String (ascii_of_nat 9) "") (repl "\n" (String (ascii_of_nat 10) "") (repl "\'" "'" (repl "\""" """" m)))).
Definition parse_message (content : str) : option str :=
  match find_sub "message" content with
  | Some (_, r0) => match after_char "=" (L "message" ++ r0) with
                    | Some (_, r) =>
                        match trim_l r with
                        | q :: rest => if Ascii.eqb q """" || Ascii.eqb q "'" then
                              match scan_close q rest 0 false with Some i => Some (unescape (firstn i rest)) | None => None end
                            else None
                        | [] => None end
                    | None => None end
  | None => None end.

Record constraint := { c_min : option str; c_max : option str; c_msg : option str }.
Definition parse_constraint (kw : string) (ok : str -> bool) (tokens : str) : option constraint :=
  if contains kw tokens then
    match paren_content kw tokens with
    | Some content =>
        let b k := match bound_text k content with Some t => if ok t then Some t else None | None => None end in
        Some {| c_min := b "min"%string; c_max := b "max"%string; c_msg := parse_message content |}
    | None => Some {| c_min := None; c_max := None; c_msg := None |}
    end
  else None.

(* ---- data points recorded from the real implementation (DESIGN section 11) ---- *)
Definition I (s : string) := TIdent (L s).
Definition Pc (c : ascii) := TPunct c false.
Definition Lt (s : string) := TLit (L s).
(* data point 1: serde rename with an escaped quote, plus skip_serializing_if *)
Definition a1 := [I "rename"; Pc "="; Lt """a\""b"""; Pc ","; I "skip_serializing_if"; Pc "="; Lt """x"""].
(* data point 2: range with negative min, exponent max, message with parentheses, quotes, backslash, the word email; then length *)
Definition a2 := [I "range"; TGroup DParen [I "min"; Pc "="; Pc "-"; Lt "5"; Pc ","; I "max"; Pc "="; Lt "1e3"; Pc ",";
                                            I "message"; Pc "="; Lt """h (w) \""q\"" \\ email"""];
                  Pc ","; I "length"; TGroup DParen [I "min"; Pc "="; Lt "1"]].
Definition show_c (c : option constraint) :=
  option_map (fun c => (option_map string_of_list_ascii (c_min c), option_map string_of_list_ascii (c_max c), option_map string_of_list_ascii (c_msg c))) c.
(* data point 3: length with a message containing parentheses and the word email *)
Definition a3 := [I "length"; TGroup DParen [I "min"; Pc "="; Lt "1"; Pc ","; I "max"; Pc "="; Lt "10"; Pc ","; I "message"; Pc "="; Lt """bad (len) email"""]].
