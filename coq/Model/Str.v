(* String primitives on byte lists, index-free forms *)
From Coq Require Import String Ascii.
From Coq Require Import List Arith Lia Bool.
Import ListNotations.
Local Open Scope char_scope.
Local Open Scope list_scope.

Definition str := list ascii.
Definition L (s : string) : str := list_ascii_of_string s.
Definition str_eqb (a b : str) : bool := if list_eq_dec ascii_dec a b then true else false.

Fixpoint starts (p s : str) : bool :=
  match p, s with
  | [], _ => true
  | a :: p', b :: s' => Ascii.eqb a b && starts p' s'
  | _, _ => false
  end.
Definition ends_with (c : ascii) (s : str) : bool :=
  match rev s with c' :: _ => Ascii.eqb c c' | [] => false end.
Definition mid (a b : nat) (s : str) : str := firstn (List.length s - a - b) (skipn a s).

(* Rust's trim on the inputs that occur here: ASCII space only (token strings and printed types
   contain no other white space; the faithful byte-level version lives in Utf8.v) *)
Definition is_space (c : ascii) := Ascii.eqb c " ".
Fixpoint trim_l (s : str) : str := match s with c :: s' => if is_space c then trim_l s' else s | [] => [] end.
Definition trim (s : str) : str := rev (trim_l (rev (trim_l s))).
Definition all_blank (s : str) := forallb is_space s.

Fixpoint join (sep : str) (l : list str) : str :=
  match l with [] => [] | [x] => x | x :: l' => x ++ sep ++ join sep l' end.

Fixpoint mapM {A B} (f : A -> option B) (l : list A) : option (list B) :=
  match l with [] => Some [] | x :: l' => match f x, mapM f l' with Some y, Some ys => Some (y :: ys) | _, _ => None end end.

(* first occurrence of a byte *)
Fixpoint find_char (c : ascii) (s : str) : option nat :=
  match s with [] => None | b :: s' => if Ascii.eqb b c then Some 0 else option_map S (find_char c s') end.

(* str::split(',') *)
Fixpoint split_naive_go (c : ascii) (cur : str) (s : str) : list str :=
  match s with
  | [] => [rev cur]
  | b :: s' => if Ascii.eqb b c then rev cur :: split_naive_go c [] s' else split_naive_go c (b :: cur) s'
  end.
Definition split_naive (c : ascii) (s : str) : list str := split_naive_go c [] s.

(* parse_two_type_params: first comma at <>-depth 0 (parentheses are not counted; depth is a signed
   integer in the code and may go negative on unbalanced input, hence Z) *)
From Coq Require Import ZArith.
Fixpoint split2_go (d : Z) (pre : str) (s : str) : option (str * str) :=
  match s with
  | [] => None
  | b :: s' =>
      if Ascii.eqb b "<" then split2_go (d + 1) (b :: pre) s'
      else if Ascii.eqb b ">" then split2_go (d - 1) (b :: pre) s'
      else if Ascii.eqb b "," && (d =? 0)%Z then Some (rev pre, s')
      else split2_go d (b :: pre) s'
  end.
Definition split2_angle (s : str) : option (str * str) :=
  match split2_go 0 [] s with Some (k, v) => Some (trim k, trim v) | None => None end.

