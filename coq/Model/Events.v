(* Faithful model of event_parser.rs (walker, receiver heuristic, symbol table, payload
   inference), of event_name_to_function, and of events.ts / the events line of index.ts.
   Definitions only. The walker is structural (no fuel): statement lists and argument lists
   are traversed by the combinators of Section Walk. *)
From Coq Require Import String Ascii.
From Coq Require Import List Arith Lia Bool.
Require Import TT.Model.Str TT.Model.TypeParse TT.Model.Render TT.Spec.TsLex TT.Model.Pipeline TT.Model.PipelineZod.
Import ListNotations.
Local Open Scope list_scope.

(* ---- syntax of function bodies, as far as event_parser.rs distinguishes it ---- *)
Inductive pat := PIdent (n : str) | PTyped (n : str) (t : qty) | POther.
Inductive lit := LStr (v : str) | LInt | LFloat | LBool | LOther.
Inductive expr :=
| XMethod (recv : expr) (m : str) (args : list expr)
| XPath (segs : list str)
| XField (base : expr) (name : str)
| XLit (l : lit)
| XStruct (path : list str)
| XRef (e : expr)
| XCall (f : expr) (args : list expr)
| XTuple (es : list expr)
| XBlock (ss : list stmt)
| XIf (th : list stmt) (el : option expr)
| XMatch (arms : list expr)
| XLoop (ss : list stmt) | XWhile (ss : list stmt) | XFor (ss : list stmt)
| XAwait (e : expr) | XTry (e : expr)
| XOther
with stmt := SExpr (e : expr) | SLet (p : pat) (init : option expr) | SOther.

Definition symtab := list (str * str).
Fixpoint lookup (k : str) (s : symtab) : option str :=
  match s with [] => None | (k', v) :: r => if str_eqb k k' then Some v else lookup k r end.
Definition insert (k v : str) (s : symtab) : symtab := (k, v) :: s.       (* HashMap::insert: later wins *)
Definition last_seg (l : list str) : str := last l [].
Definition unknown : str := L "unknown".

Fixpoint type_name (t : qty) : str :=       (* extract_type_name: event_parser.rs:71 *)
  match t with QRef u => type_name u | QPath _ n _ _ => n | QTuple _ => unknown end.

Definition named (n : str) (l : list string) : bool := existsb (fun x => str_eqb n (L x)) l.
Local Open Scope string_scope.
Definition is_emitter (recv : expr) : bool :=          (* is_likely_tauri_emitter: event_parser.rs:331 *)
  match recv with
  | XPath segs =>
      match segs with
      | a :: b :: _ => if str_eqb a (L "tauri") then named b ["AppHandle"; "Window"; "WebviewWindow"]
                       else existsb (fun s => named s ["AppHandle"; "WebviewWindow"]) segs
      | [n] => named n ["app"; "window"; "webview"]
      | [] => false end
  | XField _ n => named n ["app"; "window"; "webview"]
  | XMethod _ _ _ => true
  | _ => false
  end.

Fixpoint infer_init (e : expr) (sy : symtab) : str :=     (* infer_type_from_init: event_parser.rs:163 *)
  match e with
  | XStruct p => last_seg p
  | XCall (XPath (a :: _ :: _)) _ => a
  | XPath [n] => match lookup n sy with Some t => t | None => unknown end
  | XRef u => infer_init u sy
  | _ => unknown
  end.

(* syn::ext::IdentExt::unraw: the identifier without its raw prefix *)
Definition unraw (n : str) : str := if starts (L "r#") n then skipn 2 n else n.
(* the table is keyed on the identifier AS WRITTEN (ident.to_string() keeps r#) at every insert and
   lookup site; only the name fall-back unraws (commit 0bff742) *)
Fixpoint infer_payload (e : expr) (sy : symtab) : str :=  (* infer_payload_type: event_parser.rs:442 *)
  match e with
  | XRef u => infer_payload u sy
  | XStruct p => last_seg p
  | XPath [n] => match lookup n sy with Some t => t | None => unraw n end      (* falls back to the NAME *)
  | XPath _ => unknown                   (* qualified paths name a value, not a type (C12-fix-unknown-fallbacks) *)
  | XTuple [] => L "()"
  | XTuple _ => unknown                  (* element types are not tracked (C12-fix-unknown-fallbacks) *)
  | XLit (LStr _) => L "String" | XLit LInt => L "i32" | XLit LFloat => L "f64" | XLit LBool => L "bool" | XLit LOther => unknown
  | XMethod r m _ => if str_eqb m (L "clone") then infer_payload r sy else unknown
  | _ => unknown
  end.
Local Close Scope string_scope.

Definition str_lit (e : expr) : option str := match e with XLit (LStr v) => Some v | _ => None end.
Definition evs := list (str * str).           (* event name, payload_type string *)
(* which arguments of emit / emit_to are the name and the payload: event_parser.rs:394 *)
Definition emit_args (m : str) (args : list expr) : option (expr * expr) :=
  if str_eqb m (L "emit_to")
  then match args with _ :: n :: p :: _ => Some (n, p) | _ => None end
  else match args with n :: p :: _ => Some (n, p) | _ => None end.
Definition emit_event (m : str) (args : list expr) (sy : symtab) : evs :=
  match emit_args m args with
  | Some (n, p) => match str_lit n with Some name => [(name, infer_payload p sy)] | None => [] end
  | None => [] end.
Definition is_emit_name (m : str) : bool := str_eqb m (L "emit") || str_eqb m (L "emit_to").

(* extract_local_binding: event_parser.rs:135 (runs before the initialiser is searched) *)
Definition bind_local (p : pat) (init : option expr) (sy : symtab) : symtab :=
  match p, init with
  | PIdent v, Some i => let t := infer_init i sy in if str_eqb t unknown then sy else insert v t sy
  | PTyped v t, _ => insert v (type_name t) sy
  | _, _ => sy end.

(* the walk threads the (mutable, function-wide) symbol table through everything it visits *)
Section Walk.
  Variable W : expr -> symtab -> evs * symtab.
  Definition walk_stmt (s : stmt) (sy : symtab) : evs * symtab :=
    match s with
    | SExpr e => W e sy
    | SLet p init => let sy' := bind_local p init sy in
                     match init with Some i => W i sy' | None => ([], sy') end
    | SOther => ([], sy) end.
  Fixpoint walk_stmts (ss : list stmt) (sy : symtab) : evs * symtab :=
    match ss with
    | [] => ([], sy)
    | s :: r => let '(a, s1) := walk_stmt s sy in let '(b, s2) := walk_stmts r s1 in (a ++ b, s2)
    end.
  Fixpoint walk_list (es : list expr) (sy : symtab) : evs * symtab :=
    match es with
    | [] => ([], sy)
    | x :: r => let '(a, s1) := W x sy in let '(b, s2) := walk_list r s1 in (a ++ b, s2)
    end.
End Walk.

Fixpoint walk_expr (e : expr) (sy : symtab) {struct e} : evs * symtab :=   (* extract_events_from_expr / handle_method_call *)
  match e with
  | XMethod recv m args =>
      let here := if is_emit_name m && is_emitter recv then emit_event m args sy else [] in
      let '(a, s1) := walk_expr recv sy in
      let '(b, s2) := walk_list walk_expr args s1 in (here ++ a ++ b, s2)
  | XBlock ss | XLoop ss | XWhile ss | XFor ss => walk_stmts walk_expr ss sy
  | XIf th el => let '(a, s1) := walk_stmts walk_expr th sy in
                 match el with Some x => let '(b, s2) := walk_expr x s1 in (a ++ b, s2) | None => (a, s1) end
  | XMatch arms => walk_list walk_expr arms sy
  | XAwait x | XTry x => walk_expr x sy
  | _ => ([], sy)
  end.

(* extract_param_types: only identifier patterns enter the table (None = any other pattern) *)
Definition param := (option str * qty)%type.
Definition param_symbols (params : list param) : symtab :=
  fold_left (fun s p => match fst p with Some n => insert n (type_name (snd p)) s | None => s end) params [].
Definition fn_events_p (params : list param) (body : list stmt) : evs :=
  fst (walk_expr (XBlock body) (param_symbols params)).
Definition fn_events (params : list (str * qty)) (body : list stmt) : evs :=
  fn_events_p (map (fun p => (Some (fst p), snd p)) params) body.

(* ---- project level: analysis/mod.rs:125 (events of every top-level fn of every file, files in
   sorted path order since C13-sort-before-use: p_files is that order), bin: nothing at all is generated without a command ---- *)
Record fndef := { fd_params : list param; fd_body : list stmt }.
Record project := { p_files : list (list fndef); p_has_command : bool; p_mappings : list (str * str) }.   (* config.type_mappings *)
Definition file_events (f : list fndef) : evs := flat_map (fun d => fn_events_p (fd_params d) (fd_body d)) f.
Definition project_events (p : project) : evs := flat_map file_events (p_files p).

(* ---- events.ts ---- *)
(* event_name_to_function (C12-fix-dedup-and-identifier): every character that is not an ASCII letter or
   digit becomes '_' before PascalCase. The code maps characters, the model bytes: a multi-byte
   character gives several '_' here and one there, and PascalCase drops them all. *)
Definition alnum (c : ascii) : bool := is_digit c || lowerp c || upperp c.
Definition sanitize (s : str) : str := map (fun c => if alnum c then c else "_"%char) s.
Definition listener_name (ev : str) : str := L "on" ++ pascal true (sanitize ev).
(* create_event_contexts: one EventContext per distinct event name, the first EventInfo wins *)
Fixpoint dedup_first (l : evs) : evs :=
  match l with
  | [] => []
  | e :: r => e :: filter (fun x => negb (str_eqb (fst x) (fst e))) (dedup_first r)
  end.
Definition payload_ts (rust : str) : str :=
  match parse_type_structure rust with Some ts => add_types_prefix (render ts) | None => [] end.
Definition NL : str := [ascii_of_nat 10].
(* partials/event_listener.ts.tera, line for line (the name also appears in the doc comment and a
   name containing // turns the rest of ITS line into a comment, so line breaks matter) *)
Definition listener_text (e : str * str) : str :=
  let t := payload_ts (snd e) in
  cat [T "/**"; NL; T " * Listen for '"; fst e; T "' events"; NL; T " * @param handler - Callback function to handle the event"; NL;
       T " * @returns Promise that resolves to an unlisten function"; NL; T " */"; NL;
       T "export async function "; listener_name (fst e); T "("; NL;
       T "  handler: (payload: "; t; T ") => void"; NL;
       T "): Promise<UnlistenFn> {"; NL;
       T "  return listen<"; t; T ">('"; fst e; T "', (event) => {"; NL;
       T "    handler(event.payload);"; NL; T "  });"; NL; T "}"; NL; NL].
Definition events_text (evs : list (str * str)) : str :=
  cat [T "import { listen, type UnlistenFn, type Event } from '@tauri-apps/api/event';"; NL; T "import * as types from './types';"; NL; NL] ++
  cat (map listener_text (dedup_first evs)).

(* config.type_mappings (base/type_visitor.rs visit_custom, both visitors): a payload type name that
   parse_type_structure classifies as Custom and that has a mapping is printed as the mapping's
   target. The model replaces the name by a Rust name with exactly that rendering (string <- String,
   number <- f64, boolean <- bool, any other target T <- T, which renders to types.T as the code's
   add_types_prefix does), so that the text level stays a function of the event list. *)
Definition mapped_rust (m : list (str * str)) (s : str) : str :=
  match prim_of s with
  | Some _ => s
  | None =>
      match lookup s m with
      | Some t => if str_eqb t (L "string") then L "String" else if str_eqb t (L "number") then L "f64"
                  else if str_eqb t (L "boolean") then L "bool" else t
      | None => s end
  end.
Definition map_events (m : list (str * str)) (l : evs) : evs := map (fun e => (fst e, mapped_rust m (snd e))) l.

(* what a generation run leaves behind, as far as C12 looks at it *)
Record output := { o_generated : bool;            (* false: "No Tauri commands found", nothing written *)
                   o_events_ts : option str;      (* events.ts *)
                   o_index_reexports_events : bool }.
Definition is_nil {A} (l : list A) : bool := match l with [] => true | _ => false end.
Definition generate (p : project) : output :=
  if p_has_command p then
    let ev := project_events p in
    if is_nil ev then {| o_generated := true; o_events_ts := None; o_index_reexports_events := false |}
    else {| o_generated := true; o_events_ts := Some (events_text (map_events (p_mappings p) ev)); o_index_reexports_events := true |}
  else {| o_generated := false; o_events_ts := None; o_index_reexports_events := false |}.

(* ---- the sample function `worker` (19 placements; validated against the binary) ---- *)
Definition V (n : string) : expr := XPath [L n].
Definition S_ (v : string) : expr := XLit (LStr (L v)).
Definition emit (r : expr) (name : string) (p : expr) : expr := XMethod r (L "emit") [S_ name; p].
Definition M0 (r : expr) (m : string) : expr := XMethod r (L m) [].
Definition app := V "app".
Definition worker_params : list (str * qty) :=
  [(L "app", QPath [L "tauri"] (L "AppHandle") false []); (L "window", QPath [L "tauri"] (L "Window") false []);
   (L "p", T0 "Progress"); (L "items", T1 "Vec" (T0 "Progress")); (L "n", T0 "u32")].
Definition worker_body : list stmt := [
  SExpr (M0 (emit app "plain-stmt" (M0 (V "p") "clone")) "unwrap");
  SLet (PIdent (L "_r")) (Some (emit (V "window") "let_init" (XRef (V "p"))));
  SExpr (XIf [SExpr (M0 (emit app "in-if" (S_ "lit")) "ok")] (Some (XBlock [SExpr (M0 (emit app "in-else" (XLit LFloat)) "ok")])));
  SExpr (XMatch [XBlock [SExpr (M0 (emit app "arm-block" (XLit LBool)) "ok")]; M0 (emit app "arm-expr" (XStruct [L "Progress"])) "unwrap"]);
  SExpr (XLoop [SExpr (M0 (emit app "in-loop" (V "n")) "ok"); SExpr XOther]);
  SExpr (XWhile [SExpr (M0 (emit app "in-while" (V "items")) "ok")]);
  SExpr (XFor [SExpr (XBlock [SExpr (M0 (XMethod app (L "emit_to") [S_ "main"; S_ "nested-for"; XTuple []]) "ok")])]);
  SExpr (XTry (emit app "with-try" (XCall (V "compute") [])));
  SExpr (XAwait (XCall (V "fut") [emit app "as-arg" (XLit LInt)]));
  SExpr (M0 (emit (XField (V "self_like") (L "app")) "field-recv" (V "p")) "ok");
  SExpr (M0 (emit (XCall (V "get_handle") []) "call-recv" (V "p")) "ok");
  SExpr (M0 (emit (V "other") "ignored" (V "p")) "ok");
  SLet (PIdent (L "data")) (Some (XCall (V "compute") []));
  SExpr (M0 (emit app "untyped-var" (V "data")) "ok");
  SLet (PTyped (L "q") (T0 "Progress")) (Some (XCall (V "make") []));
  SExpr (M0 (emit app "typed-let" (V "q")) "ok");
  SExpr (XCall (XPath [L "std"; L "thread"; L "spawn"]) [XOther]);
  SExpr (XCall (V "Ok") [XTuple []]) ].
