(* Spike: faithful model of event_parser.rs (walker, receiver heuristic, symbol table, payload
   inference) and of events.ts, compared token for token with the real output *)
From Coq Require Import String Ascii.
From Coq Require Import List Arith Lia Bool.
Require Import TT.Model.Str TT.Model.TypeParse TT.Model.Render TT.Spec.TsLex TT.Model.Pipeline TT.Model.PipelineZod.
Import ListNotations.
Local Open Scope list_scope.

Inductive pat := PIdent (n : str) | PTyped (n : str) (t : qty) | POther.
Inductive lit := LStr (v : str) | LInt | LFloat | LBool | LOther.
Inductive expr :=
| XMethod (recv : expr) (m : str) (args : list expr)
| XPath (segs : list str)
| XField (base : expr) (name : str)
| XLit (l : lit)
| XStruct (path : list str)
| XRef (e : expr)
| XCall (f : expr) (args : list expr)
| XTuple (es : list expr)
| XBlock (ss : list stmt)
| XIf (th : list stmt) (el : option expr)
| XMatch (arms : list expr)
| XLoop (ss : list stmt) | XWhile (ss : list stmt) | XFor (ss : list stmt)
| XAwait (e : expr) | XTry (e : expr)
| XOther
with stmt := SExpr (e : expr) | SLet (p : pat) (init : option expr) | SOther.

Definition symtab := list (str * str).
Fixpoint lookup (k : str) (s : symtab) : option str :=
  match s with [] => None | (k', v) :: r => if str_eqb k k' then Some v else lookup k r end.
Definition insert (k v : str) (s : symtab) : symtab := (k, v) :: s.       (* HashMap::insert: later wins *)
Definition last_seg (l : list str) : str := last l [].
Definition unknown : str := L "unknown".

Fixpoint type_name (t : qty) : str :=       (* extract_type_name *)
  match t with QRef u => type_name u | QPath _ n _ _ => n | QTuple _ => unknown end.

Definition named (n : str) (l : list string) : bool := existsb (fun x => str_eqb n (L x)) l.
Local Open Scope string_scope.
Definition is_emitter (recv : expr) : bool :=          (* is_likely_tauri_emitter *)
  match recv with
  | XPath segs =>
      match segs with
      | a :: b :: _ => if str_eqb a (L "tauri") then named b ["AppHandle"; "Window"; "WebviewWindow"]
                       else existsb (fun s => named s ["AppHandle"; "WebviewWindow"]) segs
      | [n] => named n ["app"; "window"; "webview"]
      | [] => false end
  | XField _ n => named n ["app"; "window"; "webview"]
  | XMethod _ _ _ => true
  | _ => false
  end.

Fixpoint infer_init (fuel : nat) (e : expr) (sy : symtab) : str :=     (* infer_type_from_init *)
  match fuel with 0 => unknown | S f =>
  match e with
  | XStruct p => last_seg p
  | XCall (XPath (a :: _ :: _)) _ => a
  | XPath [n] => match lookup n sy with Some t => t | None => unknown end
  | XRef u => infer_init f u sy
  | _ => unknown
  end end.

Fixpoint infer_payload (fuel : nat) (e : expr) (sy : symtab) : str :=
  match fuel with 0 => unknown | S f =>
  match e with
  | XRef u => infer_payload f u sy
  | XStruct p => last_seg p
  | XPath [n] => match lookup n sy with Some t => t | None => n end      (* falls back to the NAME *)
  | XPath segs => last_seg segs
  | XTuple [] => L "()"
  | XTuple _ => L "tuple"
  | XLit (LStr _) => L "String" | XLit LInt => L "i32" | XLit LFloat => L "f64" | XLit LBool => L "bool" | XLit LOther => unknown
  | XMethod r m _ => if str_eqb m (L "clone") then infer_payload f r sy else unknown
  | _ => unknown
  end end.
Local Close Scope string_scope.

Definition str_lit (e : expr) : option str := match e with XLit (LStr v) => Some v | _ => None end.
Definition emit_event (m : str) (args : list expr) (sy : symtab) : list (str * str) :=
  let pick := if str_eqb m (L "emit_to")
              then match args with _ :: n :: p :: _ => Some (n, p) | _ => None end
              else match args with n :: p :: _ => Some (n, p) | _ => None end in
  match pick with
  | Some (n, p) => match str_lit n with Some name => [(name, infer_payload 50 p sy)] | None => [] end
  | None => [] end.

(* the walk threads the (mutable) symbol table through statements in order *)
Fixpoint walk_expr (fuel : nat) (e : expr) (sy : symtab) : list (str * str) * symtab :=
  match fuel with 0 => ([], sy) | S f =>
  let walk_stmts := fix ws (ss : list stmt) (sy : symtab) : list (str * str) * symtab :=
    match ss with
    | [] => ([], sy)
    | s :: r =>
        let '(ev1, sy1) :=
          match s with
          | SExpr e => walk_expr f e sy
          | SLet p init =>
              let sy' := match p, init with
                         | PIdent v, Some i => let t := infer_init 50 i sy in if str_eqb t unknown then sy else insert v t sy
                         | PTyped v t, _ => insert v (type_name t) sy
                         | _, _ => sy end in
              match init with Some i => walk_expr f i sy' | None => ([], sy') end
          | SOther => ([], sy) end in
        let '(ev2, sy2) := ws r sy1 in (ev1 ++ ev2, sy2)
    end in
  let walk_list := fix wl (es : list expr) (sy : symtab) : list (str * str) * symtab :=
    match es with [] => ([], sy) | x :: r => let '(a, s1) := walk_expr f x sy in let '(b, s2) := wl r s1 in (a ++ b, s2) end in
  match e with
  | XMethod recv m args =>
      let here := if (str_eqb m (L "emit") || str_eqb m (L "emit_to")) && is_emitter recv then emit_event m args sy else [] in
      let '(a, s1) := walk_expr f recv sy in
      let '(b, s2) := walk_list args s1 in (here ++ a ++ b, s2)
  | XBlock ss | XLoop ss | XWhile ss | XFor ss => walk_stmts ss sy
  | XIf th el => let '(a, s1) := walk_stmts th sy in
                 match el with Some x => let '(b, s2) := walk_expr f x s1 in (a ++ b, s2) | None => (a, s1) end
  | XMatch arms => walk_list arms sy
  | XAwait x | XTry x => walk_expr f x sy
  | _ => ([], sy)
  end end.

Definition fn_events (params : list (str * qty)) (body : list stmt) : list (str * str) :=
  fst (walk_expr 100 (XBlock body) (fold_left (fun s p => insert (fst p) (type_name (snd p)) s) params [])).

(* ---- events.ts ---- *)
Definition dash_to_us (s : str) : str := map (fun c => if Ascii.eqb c "-"%char then "_"%char else c) s.
Definition listener_name (ev : str) : str := L "on" ++ pascal true (dash_to_us ev).
Definition payload_ts (rust : str) : str :=
  match parse_type_structure rust with Some ts => add_types_prefix (render ts) | None => [] end.
Definition listener_text (e : str * str) : str :=
  let t := payload_ts (snd e) in
  cat [T "export async function "; listener_name (fst e); T "( handler: (payload: "; t; T ") => void ): Promise<UnlistenFn> { return listen<"; t;
       T ">('"; fst e; T "', (event) => { handler(event.payload); }); } "].
Definition events_text (evs : list (str * str)) : str :=
  T "import { listen, type UnlistenFn, type Event } from '@tauri-apps/api/event'; import * as types from './types'; " ++ cat (map listener_text evs).

(* ---- the sample function `worker` ---- *)
Definition V (n : string) : expr := XPath [L n].
Definition S_ (v : string) : expr := XLit (LStr (L v)).
Definition emit (r : expr) (name : string) (p : expr) : expr := XMethod r (L "emit") [S_ name; p].
Definition M0 (r : expr) (m : string) : expr := XMethod r (L m) [].
Definition app := V "app".
Definition worker_params : list (str * qty) :=
  [(L "app", QPath [L "tauri"] (L "AppHandle") false []); (L "window", QPath [L "tauri"] (L "Window") false []);
   (L "p", T0 "Progress"); (L "items", T1 "Vec" (T0 "Progress")); (L "n", T0 "u32")].
Definition worker_body : list stmt := [
  SExpr (M0 (emit app "plain-stmt" (M0 (V "p") "clone")) "unwrap");
  SLet (PIdent (L "_r")) (Some (emit (V "window") "let_init" (XRef (V "p"))));
  SExpr (XIf [SExpr (M0 (emit app "in-if" (S_ "lit")) "ok")] (Some (XBlock [SExpr (M0 (emit app "in-else" (XLit LFloat)) "ok")])));
  SExpr (XMatch [XBlock [SExpr (M0 (emit app "arm-block" (XLit LBool)) "ok")]; M0 (emit app "arm-expr" (XStruct [L "Progress"])) "unwrap"]);
  SExpr (XLoop [SExpr (M0 (emit app "in-loop" (V "n")) "ok"); SExpr XOther]);
  SExpr (XWhile [SExpr (M0 (emit app "in-while" (V "items")) "ok")]);
  SExpr (XFor [SExpr (XBlock [SExpr (M0 (XMethod app (L "emit_to") [S_ "main"; S_ "nested-for"; XTuple []]) "ok")])]);
  SExpr (XTry (emit app "with-try" (XCall (V "compute") [])));
  SExpr (XAwait (XCall (V "fut") [emit app "as-arg" (XLit LInt)]));
  SExpr (M0 (emit (XField (V "self_like") (L "app")) "field-recv" (V "p")) "ok");
  SExpr (M0 (emit (XCall (V "get_handle") []) "call-recv" (V "p")) "ok");
  SExpr (M0 (emit (V "other") "ignored" (V "p")) "ok");
  SLet (PIdent (L "data")) (Some (XCall (V "compute") []));
  SExpr (M0 (emit app "untyped-var" (V "data")) "ok");
  SLet (PTyped (L "q") (T0 "Progress")) (Some (XCall (V "make") []));
  SExpr (M0 (emit app "typed-let" (V "q")) "ok");
  SExpr (XCall (XPath [L "std"; L "thread"; L "spawn"]) [XOther]);
  SExpr (XCall (V "Ok") [XTuple []]) ].

